# Per-property build + budget table for ./check (see DESIGN.md).
# igris sources are compiled from IGRIS_ROOT's working tree on every invocation.

CHECKS = {}

CHECKS["C16"] = dict(
    engine="E2-clock",
    level="exploration",
    mode="asan",
    harness=["harness/C16_timers.cpp"],
    igris=["igris/container/dlist.cpp", "igris/sync/syslock_mutex.cpp", "igris/datastruct/stimer.c"],
    runs=dict(quick=40000, thorough=3000000),
    design_ref="DESIGN.md 4.2, 5 (C16)",
    technique="deterministic discrete-event simulation (seeded histories, stalls, re-entrant callbacks) checked against a reference scheduler",
    level_text="seeded exploration of timer histories under a simulated clock (time bases int64, double with fractional deadlines, int32, uint32 as a wrapping counter with every start at or before now; clock resolution 1 .. 2^31 units per tick): every callback is validated against a "
               "reference scheduler at the moment it fires (never early, earliest first, completeness after exec, exact re-arm), "
               "failures are minimised and replay exactly; sampling, not proof",
    level_note="trusted: the reference scheduler in the harness, single caller thread, time non-decreasing, intervals >= 1",
    rule="one run = one seeded history of plan/unplan/script/destroy client ops and main-loop ticks (with stalls) over "
         "1..8 timers on a discrete-event clock; every firing and every step is compared with a reference scheduler. "
         "non-trivial = a tick produced >= 2 catch-up firings or a callback changed the pending set; "
         "distinct = distinct FNV hash of the full event trace",
    simtime_units="simulated clock ticks",
    probes=["equal_deadlines", "catch_up_ge_10", "callback_unplanned_other", "callback_planned_overdue", "replan_self",
            "callback_destroyed_other", "replan_linked", "time_origin_not_positive", "wrapping_counter_time_base"],
    assumptions=["time passed to exec() is non-decreasing and intervals are >= 1 (the property's precondition)",
                 "single caller thread (thread schedules are C20's subject)",
                 "the reference scheduler in harness/C16_timers.cpp is the specification of 'due', 'earliest first' and 're-arm'"],
)

CHECKS["C20"] = dict(
    engine="E1-thr",
    level="exploration",
    mode="thr",
    opt="-O1",
    harness=[("harness/C20_prog.cpp", ["+igris-san"]), "harness/C20_thr.cpp", "sim/thr/thrsim.cpp"],
    igris=["igris/sync/syslock_mutex.cpp", "igris/osinter/wait.cpp", "igris/osinter/wait-linux.cpp", "igris/container/dlist.cpp"],
    libs=["-rdynamic"],
    runs=dict(quick=24000, thorough=1500000),
    design_ref="DESIGN.md 4.1, 5 (C20), 11 A.3",
    technique="deterministic thread-schedule simulation: real threads serialised by a seeded scheduler at intercepted "
              "pthread/semaphore calls and instrumented memory accesses, spurious wake-up injection, vector-clock "
              "happens-before race and object-lifetime detection, model wait-queue / FIFO oracles",
    level_text="seeded exploration of thread schedules of short 2-4 thread programs over the real system lock, wait queue and "
               "safe_queue code (default- and initializer-list-constructed); every run is one exactly replayable interleaving; mutual exclusion, exact wake attribution, "
               "lost/spurious wake-ups (deadlock detection), exactly-once/ordering and happens-before races (including use of a "
               "destroyed condition variable) are checked in every run. Sampling of schedules, not enumeration, not proof",
    level_note="trusted: the modelled pthread mutex/condvar/semaphore semantics in sim/thr (non-robust mutexes, no priorities), "
               "the -fsanitize=thread instrumentation as the source of memory-access events; preemption inside uninstrumented "
               "libstdc++/libc code is not explored",
    rule="one run = one seeded program (2-4 threads, 1-8 API calls each, plus a drain thread for the wait queue) executed under one "
         "seeded schedule (explicit choice list or PCT priorities, optional preemption every k-th instrumented memory access, "
         "optional spurious condvar wake-ups). non-trivial = at least one context switch happened while >= 2 threads were inside "
         "the API under test; distinct = distinct FNV hash of the synchronisation-event trace",
    simtime_units="scheduling decisions",
    probes=["wake_raced_with_park", "nested_depth3", "save_restore_window", "queue_contended", "priority_waiter", "second_wait_queue", "delegate_woken_through_a_handler_set_while_parked", "delegate_waiter_destroyed_while_parked", "delegate_parked_itself_again_from_its_handler"],
    assumptions=["pthread primitives behave as modelled in sim/thr/thrsim.cpp", "pop() is only called when an item is available (std::queue precondition)",
                 "bare-metal variants (semaphore.cpp, syslock_irqs.c) are not compiled on this platform and not simulated"],
)

_LINK_IGRIS = ["igris/protocols/gstuff.cpp", "igris/protocols/gstuff_v1/gstuff.c", "igris/protocols/gstuff_v1/autorecv.c"]
CHECKS["C04"] = dict(
    engine="E3-link",
    level="exploration",
    parts=[
        dict(name="link", mode="asan", defs=["-DLINK_FAULTS=0", "-w"], harness=["harness/C04_C05_link.cpp", "harness/C04_gateway.cpp"], igris=_LINK_IGRIS, runs=dict(quick=60000, thorough=3000000)),
        dict(name="threads", mode="thr", defs=["-w"], harness=[("harness/C04_thr_prog.cpp", ["+igris-san"]), "harness/C04_thr.cpp", "sim/thr/thrsim.cpp"],
             igris=["igris/protocols/gstuff.cpp", "igris/protocols/gstuff_v1/gstuff.c"], libs=["-rdynamic"], runs=dict(quick=6000, thorough=300000)),
    ],
    design_ref="DESIGN.md 4.3, 5 (C04)",
    technique="deterministic simulation of sender -> byte channel -> receiver in the fault-free configuration, reference encoder/decoder oracle, ASan on exact-size buffers",
    level_text="seeded exploration of traffic (1-5 back-to-back frames, marker-heavy payloads, CRC steered onto markers, iovec partitions) through the "
               "real encoders and the real receivers over a fault-free simulated link: frame format, exactly-once in-order delivery on the last byte, "
               "content equality, output-buffer bounds; also on a receiver object that was re-initialised in the middle of an earlier frame (init / setbuf / setbuf onto a new buffer) or that reported overflow for an earlier frame. Sampling, not proof",
    level_note="trusted: the reference encoder/unescape/CRC-8 in the harness; ASan for bounds; this is the fault-free configuration of the C05 world",
    rule="one run = one seeded traffic of 1..5 frames (1 in 40: 60..150) for one framing variant (configurable v1 alphabet, configurable start==stop alphabet, legacy C, three user alphabets) "
         "and one encoder entry point, delivered byte by byte without faults. non-trivial = some payload byte or the CRC needed escaping; "
         "distinct = distinct hash of the (byte, receiver status) sequence",
    simtime_units="bytes delivered over the simulated link",
    probes=["crc_is_marker", "all_bytes_escaped", "empty_payload", "empty_iovec_piece", "max_expansion", "payload_256_or_more", "exhaustive_block", "encoders_overlapped", "receiver_object_relocated_in_mid_traffic", "bytes_handed_over_as_another_integer_type"],
    assumptions=["receive buffer of at least n+2 bytes (the property's 'large enough buffer')", "caller-supplied encoder output buffers are 2n+4 bytes"],
)
CHECKS["C05"] = dict(
    engine="E3-link",
    level="fault_enumeration",
    mode="asan",
    defs=["-DLINK_FAULTS=1", "-w"],
    harness=["harness/C04_C05_link.cpp", "harness/C04_gateway.cpp"],
    igris=_LINK_IGRIS,
    runs=dict(quick=30000, thorough=500000),
    design_ref="DESIGN.md 4.3, 5 (C05), 11 A.2",
    technique="deterministic link simulation with fault injection (drop, truncate, flip, replace/insert marker bytes, duplicate, noise, CRC-completing bytes, "
              "receiver restart, undersized buffers); per-traffic enumeration of every single-fault offset; reference unescape/CRC oracle evaluated at every byte",
    level_text="seeded traffic (2-6 frames + noise) with faults attached to frames; one third of the runs enumerate a single fault of one kind at every byte "
               "offset of the traffic. After every byte: capacity bound (S1), soundness of every completed packet against the bytes since the last start marker (S2); "
               "after the last fault: resynchronisation within one frame (two when start==stop) (S3) and overflow reporting (S4). Receiver restarts are init(), setbuf() or setbuf() onto a fresh buffer; a sweep world puts every byte value behind the stuffing byte. Sampling of traffic, enumeration of fault offsets",
    level_note="trusted: reference unescape/CRC in the harness; ASan for memory safety; relaxation under faults is narrow: a damaged frame may be dropped or "
               "reported as an error, never delivered altered",
    rule="one run = one seeded traffic for one receiver variant and capacity with 0-3 attached faults, or (sweep runs) the traffic replayed once per byte offset with "
         "a single fault there. non-trivial = a fault landed strictly inside a frame and a later well-formed frame existed that the receiver had to deliver; "
         "distinct = distinct hash of the (byte, status) sequence",
    simtime_units="bytes delivered over the simulated link",
    probes=["frame_too_long_for_buffer", "one_byte_too_long", "cap_2", "accidental_crc_match", "crc_completing_byte"],
    assumptions=["capacity >= 2", "receiver restart = init()/setbuf on a zeroed legacy struct"],
)

CHECKS["C03"] = dict(
    engine="E6-hist",
    level="exploration",
    mode="asan",
    harness=["harness/C03_rings.cpp", "harness/C03_c_api.c"],
    igris=[],
    runs=dict(quick=60000, thorough=3000000),
    design_ref="DESIGN.md 4.6, 5 (C03)",
    technique="deterministic simulation of producer/consumer/DMA tasks (with stalls) interleaved on one ring, refinement against a reference queue after every step, simulated memory (SimAlloc) + ASan",
    level_text="seeded histories of producer, consumer and DMA-style tasks over rings of every size 2..17 (67 thorough), all byte values with 0xFF/0x00 weighted; "
               "after every step the real ring is compared with a std::deque reference (content, counts, full/empty, index range, relative accessors; external producer publishing with set_last_index). Sampling, not proof",
    level_note="sequential refinement against a reference model at operation granularity (the rings promise no finer atomicity); trusted: the reference queue and "
               "modular arithmetic in the harness; push on a full typed ring / pop on an empty one are treated as caller misuse and not generated",
    rule="one run = one seeded op history on one structure (C ring API, igris::ring<char>, igris::ring<int>, cyclic_buffer+ring_counter) with phases in which only "
         "one side runs. non-trivial = the ring wrapped and was full (C ring: and empty again after carrying data); distinct = distinct hash of the op/result trace",
    simtime_units="elements moved through the ring",
    probes=["wrapped", "full_reject", "empty_reject", "byte_0xFF_read", "bulk_move_across_wrap", "negative_fixup", "resize", "get_last_across_wrap", "store_with_throwing_constructor", "typed_dma_push"],
    assumptions=["single caller at a time (no concurrent producer/consumer inside one ring operation)", "cyclic_buffer::operator[] index in [0,size)"],
)

_HEAP_POST = [dict(match=r"^ig_lin_(malloc|realloc)_cpp\.o$",
                   cmd=["objcopy", "--redefine-sym", "malloc=lin_malloc", "--redefine-sym", "free=lin_free", "--redefine-sym", "realloc=lin_realloc"])]
_HEAP_IGRIS = ["compat/mem/lin_malloc.cpp", "compat/mem/lin_realloc.cpp", "igris/sync/critical_context.c", "igris/sync/syslock_mutex.cpp"]
CHECKS["C10"] = dict(
    engine="E6-hist",
    level="exploration",
    parts=[
        dict(name="hist", mode="asan", harness=["harness/C10_alloc.cpp"], igris=_HEAP_IGRIS, post=_HEAP_POST, runs=dict(quick=40000, thorough=3000000)),
        dict(name="threads", mode="thr", harness=[("harness/C10_thr_prog.cpp", ["+igris-san"]), "harness/C10_thr.cpp", "sim/thr/thrsim.cpp"], igris=_HEAP_IGRIS,
             post=_HEAP_POST, libs=["-rdynamic"], runs=dict(quick=8000, thorough=600000)),
    ],
    design_ref="DESIGN.md 4.6, 5 (C10)",
    technique="deterministic simulation of several client tasks (allocate / free / reallocate / die) against the real allocators, shadow interval map of live blocks with byte patterns checked after every step, ASan",
    level_text="seeded histories of 2-4 clients over the bare-metal heap (malloc/free/realloc on a harness-provided arena) and the three fixed-block pools: every returned "
               "block is checked for arena bounds, alignment, disjointness from all live blocks, untouched contents, realloc prefix; pools for exact capacity, null beyond it, "
               "free-count = capacity - live (element layouts of 3..64 bytes, alignment 1..64, pool embedded behind other data); heap returns to its initial break when everybody has died. Sampling, not proof",
    level_note="sequential refinement against a shadow model at operation granularity; trusted: the shadow map; the heap's own limit of 99 live allocations is respected as a configuration bound; "
               "the second part runs the heap's clients as real threads under the E1 thread simulator (seeded schedules, happens-before detector on arena and free list)",
    rule="one run = one seeded history over one allocator (lin heap, C pool_head, igris::pool, static_object_pool) with request sizes from {0,1,7,8,9,...,3000}, "
         "LIFO/FIFO/random free orders and client deaths. non-trivial = (heap) a block freed between two live neighbours and a later request served from the free list, "
         "(pools) the pool was exhausted and refilled; distinct = distinct hash of the op/result trace",
    simtime_units="allocator operations",
    probes=["coalesce_both_sides", "reused_free_chunk", "grow_in_place", "extend_top", "move_realloc", "shrink_split", "brk_lowered", "pool_exhausted", "heap_contended", "object_pool_odd_element_size", "pool_reinit", "pool_capacity_zero"],
    assumptions=["at most 60 live heap blocks (the heap asserts < 100)", "requests stay within the arena (the heap has no upper bound check)", "pool element size >= sizeof(void*)"],
)

CHECKS["C01"] = dict(
    engine="E6-hist",
    level="exploration",
    mode="asan",
    harness=["harness/C01_lists.cpp", "harness/C01_c_api.c"],
    igris=["igris/container/dlist.cpp"],
    runs=dict(quick=60000, thorough=3000000),
    design_ref="DESIGN.md 4.6, 5 (C01)",
    technique="deterministic simulation of client tasks applying list operations (including node and list death) to the real intrusive lists, refinement against reference sequences after every step, every node its own heap object under ASan",
    level_text="seeded operation histories over 1-12 nodes and 1-4 lists per kind (C dlist, C++ dlist_node/dlist_base/dlist<>, C/C++ slist, hlist): after every step each list is "
               "traversed forward and backward through the public iterators/macros and compared with a reference sequence, together with size/empty/membership queries, back-pointer "
               "consistency of every linked node, self-linkedness of unlinked nodes and harmless second removal; one world keeps each object in up to four lists at once through same-typed links and runs populations of 1..9 or 1001..1200 objects. Sampling of histories, not proof",
    level_note="sequential refinement only (licence (e) of DESIGN.md section 2): no scheduler dimension and no fault dimension beyond node/list death; API contracts are honoured by the generator "
               "(the C add family and dlist_move_sorted get unlinked nodes, poisoned nodes are re-initialised, hlist_del'ed nodes are re-initialised by the caller)",
    rule="one run = one seeded op history on one list family. non-trivial = at least two lists were non-empty at once, a move happened and a linked node died "
         "(slist/hlist: a pop and a removal happened); distinct = distinct hash of the executed op trace",
    simtime_units="list operations",
    probes=["self_move", "move_to_neighbour", "single_element_move", "splice_into_nonempty", "splice_from_empty", "destroy_linked_head_neighbour", "second_removal", "reinsert_linked_node", "sorted_insert", "insert_instead", "head_takeover", "takeover_of_empty_list", "insert_instead_of_unlinked", "removal_during_safe_iteration", "add_of_uninitialised_or_poisoned_node", "head_reinit_nonempty", "uninitialised_node"],
    assumptions=["single caller at a time", "freeing a still-linked C node is caller misuse and is not generated"],
)

CHECKS["C02"] = dict(
    engine="E6-hist",
    level="exploration",
    parts=[
        dict(name="vector", mode="asan", harness=["harness/C02_vector.cpp"], igris=[], runs=dict(quick=40000, thorough=2000000)),
        dict(name="twin", mode="asan", defs=["-DC02_TWIN"], harness=["harness/C02_vector.cpp"], igris=[], runs=dict(quick=20000, thorough=1000000)),
    ],
    design_ref="DESIGN.md 4.6, 5 (C02)",
    technique="deterministic simulation of operation histories over the Allocator/memory seam (SimAlloc: exact-size blocks, seed-chosen fill and immediate reuse), lifetime-tracking element type, step-by-step refinement against std::vector / std::map / std::set, ASan",
    level_text="seeded histories on two vectors (so copy/move/compare between them are reachable) with int, lifetime-tracked and trivially-copyable-with-own-equality elements: after every step size, element sequence, "
               "capacity >= size, comparisons and at() are compared with std::vector; every element construction/destruction/assignment is checked against a registry of live "
               "objects; allocator calls are balanced; flat_map / flat_set are compared with std::map / std::set. The twin of igris::vector in std_portable.h runs as a second part. Sampling, not proof",
    level_note="sequential refinement against a reference model; no scheduler dimension, and no fault dimension beyond allocator/memory behaviour (what fresh memory contains, whether a freed block comes "
               "straight back). Allocation failure is not generated: the property does not promise exception safety",
    rule="one run = one seeded op history over two vectors of one element type (or over one flat_map and one flat_set). non-trivial = a reallocation happened and an insert/erase "
         "not at the end was executed (flat: a lookup hit and a lookup miss); distinct = distinct hash of the op trace",
    simtime_units="container operations",
    probes=["insert_at_realloc_boundary", "erase_prefix", "self_assign", "assign_from_empty", "fill_0xFF_memory", "range_insert", "copy_assign", "erase_tail", "freed_block_reused_at_once", "alias_argument_with_reallocation", "alias_argument_without_reallocation", "flat_set_custom_order", "append_with_throwing_constructor"],
    assumptions=["allocation never fails"],
)

CHECKS["C14"] = dict(
    engine="E6-hist",
    level="exploration",
    parts=[
        dict(name="static", mode="asan", harness=["harness/C14_static.cpp"], igris=[], runs=dict(quick=40000, thorough=2000000)),
        dict(name="twin", mode="asan", defs=["-DC14_TWIN"], harness=["harness/C14_static.cpp"], igris=["igris/util/numconvert.c"], runs=dict(quick=20000, thorough=1000000)),
    ],
    design_ref="DESIGN.md 4.6, 5 (C14)",
    technique="deterministic simulation of operation histories on container objects placed in simulated memory (exact-size SimAlloc blocks, seed-chosen fill), lifetime-tracking elements with storage-zone check, refinement against a reference truncated to N, ASan",
    level_text="seeded histories over two static_vector<T,N> objects (N in {1,2,3,4,8,256}, T int or lifetime-tracked) and static_string<N> (N in {1,2,4,8}) offered 0..2N elements through "
               "push/emplace/resize/constructors (ranges from pointers, list iterators and single-pass readers)/assignment: size <= N, room, contents == reference prefix, c_str() terminated inside the object, every element constructed inside the "
               "element storage and destroyed exactly once. The std_portable.h twins run as a second part. Sampling, not proof",
    level_note="sequential refinement against a reference model; no scheduler dimension, and no fault dimension beyond object death and memory behaviour; members that do not compile "
               "when instantiated (static_string::operator[] in static_string.h) are outside the property; the content of a moved-from container is not compared",
    rule="one run = one seeded op history for one (element type, N) instantiation. non-trivial = at least one operation offered more than the remaining room; "
         "distinct = distinct hash of the op trace",
    simtime_units="container operations",
    probes=["push_when_full", "ctor_2N_elements", "ctor_more_than_N_elements", "resize_beyond_N", "assign_over_nonempty", "self_assign", "erase", "ctor_ilist", "split", "split_token_longer_than_capacity", "split_more_tokens_than_capacity", "append_with_throwing_constructor", "capacity_256_filled"],
    assumptions=["single caller", "c_str() sources are NUL terminated"],
)

CHECKS["C15"] = dict(
    engine="E4-term",
    level="exploration",
    mode="asan",
    harness=["harness/C15_term.cpp", "harness/C15_term_c.cpp", "harness/C15_term_xx.cpp"],
    igris=["igris/shell/vterm.c", "igris/shell/vtermxx.cpp", "igris/util/numconvert.c"],
    runs=dict(quick=30000, thorough=3000000),
    design_ref="DESIGN.md 4.4, 5 (C15), 11 A.1",
    technique="deterministic simulation of a keyboard task feeding the real terminal automaton byte by byte (with line-noise and interrupt injection), echo stream replayed on a VT100 screen model, reference editor oracle after every key, ASan on exact-size buffers",
    level_text="seeded key histories (printables, BS, arrows, Delete, CR/LF in all pairings, Ctrl-C, unknown escapes; capacities 2..24, history depth 1..9, lines longer than the buffer, history wrap) "
               "through vterm.c and vtermxx.cpp: after every key the screen row/cursor reconstructed from the echo stream, the lines handed to execute, SIGINT count and the bounds "
               "0 <= cursor <= length < capacity are compared with a reference editor; the terminal object is re-initialised with another geometry in the middle of a history. A noise configuration (arbitrary bytes, Ctrl-C inside escapes) checks the safety half only; "
               "a third world drives the sline API, the igris::sline wrapper and readline_linecpy against a string+cursor model. Sampling, not proof",
    level_note="trusted: the reference editor and the VT100 model in the harness (written from the key table in the headers); what Up shows behind the oldest stored line and a Ctrl-C between "
               "CR and LF are not defined by the property and are not generated in the well-formed configuration",
    rule="one run = one seeded key history for one terminal implementation (C or C++), capacity and history depth; non-trivial = the cursor was strictly inside the line during an edit or a history "
         "line was recalled (sline world: the line was full and a bulk paste was clamped); distinct = distinct hash of the delivered byte sequence",
    simtime_units="bytes echoed to the simulated screen",
    probes=["insert_mid_line", "line_full", "history_full", "crlf_twice", "esc_split_by_noise", "unknown_escape", "recall_with_cursor_inside_line", "bulk_paste_clamped", "getline", "linecpy", "cursor_beyond_column_255", "echo_off", "other_prompt"],
    assumptions=["screen wide enough that nothing wraps", "prompt is the default '$ '"],
)

CHECKS["C09"] = dict(
    engine="E5-store",
    level="fault_enumeration",
    mode="asan",
    defs=["-w"],
    harness=["harness/C09_store.cpp", "harness/C09_api1.cpp", "harness/C09_api2.cpp"],
    igris=[],
    runs=dict(quick=12000, thorough=600000),
    design_ref="DESIGN.md 4.5, 5 (C09)",
    technique="deterministic simulation of a writer and a reader task over one cursor storage: concatenated streams of a compiled-in type family checked against an independent layout-rule encoder; "
              "storage-layer fault injection = truncation at every offset of each sampled stream, decoded from exact-size heap copies under ASan, twice over differently scribbled stacks; golden encodings",
    level_text="seeded streams (1-6 values drawn from ~30 types per API: fixed-width scalars, float/double, std::string with embedded NULs, vector of trivial and non-trivial elements, pair, tuple, map, "
               "reflect / serialize_reflect structs, nesting to depth 3; sizes up to the 16-bit limit in the thorough tier) through both serialisation APIs: bytes written == layout rule, "
               "decoded == original, reader cursor == writer offset after every value. For the bounded reader every truncation point of each sampled stream is enumerated: no read beyond the cut, "
               "complete values intact, result independent of uninitialised memory. Recorded golden encodings must still be produced and still decode. Sampling of streams, enumeration of cut points",
    level_note="trusted: the layout-rule reference encoder and the value generator in the harness; the unbounded binary_buffer_reader of the archive API is only used on complete input "
               "(the property's truncation clause names the bounded storage reader)",
    rule="one run = one seeded stream for one API (plus, in the truncation world, one decode per cut point). non-trivial = the stream has >= 2 values and one is a container; "
         "distinct = distinct hash of the encoded bytes",
    simtime_units="bytes written to the simulated storage",
    probes=["empty_container", "nested_depth3", "non_trivial_element", "cut_inside_length_prefix_candidate", "len_65535", "payload_64k_or_more", "container_count_over_255"],
    assumptions=["strings and containers hold at most 65535 elements", "native endianness of this machine (the property says native-endian)"],
)
