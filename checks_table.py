# Per-property build + budget table for ./check (see DESIGN.md).
# igris sources are compiled from IGRIS_ROOT's working tree on every invocation.

CHECKS = {}

CHECKS["C16"] = dict(
    engine="E2-clock",
    level="exploration",
    mode="asan",
    harness=["harness/C16_timers.cpp"],
    igris=["igris/container/dlist.cpp", "igris/sync/syslock_mutex.cpp", "igris/datastruct/stimer.c"],
    runs=dict(quick=40000, thorough=1500000),
    design_ref="DESIGN.md 4.2, 5 (C16)",
    technique="deterministic discrete-event simulation (seeded histories, stalls, re-entrant callbacks) checked against a reference scheduler",
    level_text="seeded exploration of timer histories under a simulated clock: every callback is validated against a "
               "reference scheduler at the moment it fires (never early, earliest first, completeness after exec, exact re-arm), "
               "failures are minimised and replay exactly; sampling, not proof",
    level_note="trusted: the reference scheduler in the harness, single caller thread, time non-decreasing, intervals >= 1",
    rule="one run = one seeded history of plan/unplan/script/destroy client ops and main-loop ticks (with stalls) over "
         "1..8 timers on a discrete-event clock; every firing and every step is compared with a reference scheduler. "
         "non-trivial = a tick produced >= 2 catch-up firings or a callback changed the pending set; "
         "distinct = distinct FNV hash of the full event trace",
    simtime_units="simulated clock ticks",
    probes=["equal_deadlines", "catch_up_ge_10", "callback_unplanned_other", "callback_planned_overdue", "replan_self",
            "callback_destroyed_other", "replan_linked"],
    assumptions=["time passed to exec() is non-decreasing and intervals are >= 1 (the property's precondition)",
                 "single caller thread (thread schedules are C20's subject)",
                 "the reference scheduler in harness/C16_timers.cpp is the specification of 'due', 'earliest first' and 're-arm'"],
)

CHECKS["C20"] = dict(
    engine="E1-thr",
    level="exploration",
    mode="thr",
    opt="-O1",
    harness=[("harness/C20_prog.cpp", ["+igris-san"]), "harness/C20_thr.cpp", "sim/thr/thrsim.cpp"],
    igris=["igris/sync/syslock_mutex.cpp", "igris/osinter/wait.cpp", "igris/osinter/wait-linux.cpp", "igris/container/dlist.cpp"],
    libs=["-rdynamic"],
    runs=dict(quick=24000, thorough=1200000),
    design_ref="DESIGN.md 4.1, 5 (C20), 11 A.3",
    technique="deterministic thread-schedule simulation: real threads serialised by a seeded scheduler at intercepted "
              "pthread/semaphore calls and instrumented memory accesses, spurious wake-up injection, vector-clock "
              "happens-before race and object-lifetime detection, model wait-queue / FIFO oracles",
    level_text="seeded exploration of thread schedules of short 2-4 thread programs over the real system lock, wait queue and "
               "safe_queue code; every run is one exactly replayable interleaving; mutual exclusion, exact wake attribution, "
               "lost/spurious wake-ups (deadlock detection), exactly-once/ordering and happens-before races (including use of a "
               "destroyed condition variable) are checked in every run. Sampling of schedules, not enumeration, not proof",
    level_note="trusted: the modelled pthread mutex/condvar/semaphore semantics in sim/thr (non-robust mutexes, no priorities), "
               "the -fsanitize=thread instrumentation as the source of memory-access events; preemption inside uninstrumented "
               "libstdc++/libc code is not explored",
    rule="one run = one seeded program (2-4 threads, 1-8 API calls each, plus a drain thread for the wait queue) executed under one "
         "seeded schedule (explicit choice list or PCT priorities, optional preemption every k-th instrumented memory access, "
         "optional spurious condvar wake-ups). non-trivial = at least one context switch happened while >= 2 threads were inside "
         "the API under test; distinct = distinct FNV hash of the synchronisation-event trace",
    simtime_units="scheduling decisions",
    probes=["wake_raced_with_park", "nested_depth3", "save_restore_window", "queue_contended", "priority_waiter"],
    assumptions=["pthread primitives behave as modelled in sim/thr/thrsim.cpp", "pop() is only called when an item is available (std::queue precondition)",
                 "bare-metal variants (semaphore.cpp, syslock_irqs.c) are not compiled on this platform and not simulated"],
)
