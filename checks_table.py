# Per-property build + budget table for ./check (see DESIGN.md).
# igris sources are compiled from IGRIS_ROOT's working tree on every invocation.

CHECKS = {}

CHECKS["C16"] = dict(
    engine="E2-clock",
    level="exploration",
    mode="asan",
    harness=["harness/C16_timers.cpp"],
    igris=["igris/container/dlist.cpp", "igris/sync/syslock_mutex.cpp", "igris/datastruct/stimer.c"],
    runs=dict(quick=40000, thorough=1500000),
    design_ref="DESIGN.md 4.2, 5 (C16)",
    technique="deterministic discrete-event simulation (seeded histories, stalls, re-entrant callbacks) checked against a reference scheduler",
    level_text="seeded exploration of timer histories under a simulated clock: every callback is validated against a "
               "reference scheduler at the moment it fires (never early, earliest first, completeness after exec, exact re-arm), "
               "failures are minimised and replay exactly; sampling, not proof",
    level_note="trusted: the reference scheduler in the harness, single caller thread, time non-decreasing, intervals >= 1",
    rule="one run = one seeded history of plan/unplan/script/destroy client ops and main-loop ticks (with stalls) over "
         "1..8 timers on a discrete-event clock; every firing and every step is compared with a reference scheduler. "
         "non-trivial = a tick produced >= 2 catch-up firings or a callback changed the pending set; "
         "distinct = distinct FNV hash of the full event trace",
    simtime_units="simulated clock ticks",
    probes=["equal_deadlines", "catch_up_ge_10", "callback_unplanned_other", "callback_planned_overdue", "replan_self",
            "callback_destroyed_other", "replan_linked"],
    assumptions=["time passed to exec() is non-decreasing and intervals are >= 1 (the property's precondition)",
                 "single caller thread (thread schedules are C20's subject)",
                 "the reference scheduler in harness/C16_timers.cpp is the specification of 'due', 'earliest first' and 're-arm'"],
)
