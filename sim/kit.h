// simkit: common kit for the deterministic-simulation harnesses (DESIGN.md section 3).
//
// One integer decides everything: a run seed -> Rng -> plan (cfg ints + list of int-vector ops,
// faults are ops or op arguments) -> World::execute(plan) -> Result{verdict, signature, trace hash}.
// The harness executable speaks a small line protocol with /verif/check (python driver):
//   <harness> run  <tier> <seed> <shard> <nshards> <nruns> [--from i] [--avoid a,b]   batch of runs
//   <harness> gen  <tier> <seed> <i> [--avoid a,b]                                      print plan of run i
//   <harness> exec [--verbose]                                                          plans on stdin -> RES lines
// Nothing in here reads a clock or draws random numbers outside Rng.
#pragma once
#include <cstdint>
#include <cstdio>
#include <cstdlib>
#include <cstring>
#include <cstdarg>
#include <string>
#include <vector>
#include <map>
#include <set>
#include <functional>
#include <stdexcept>

namespace kit {

// ---------------------------------------------------------------- rng
static inline uint64_t splitmix64(uint64_t &x)
{
    uint64_t z = (x += 0x9E3779B97F4A7C15ull);
    z = (z ^ (z >> 30)) * 0xBF58476D1CE4E5B9ull;
    z = (z ^ (z >> 27)) * 0x94D049BB133111EBull;
    return z ^ (z >> 31);
}
static inline uint64_t mix3(uint64_t a, uint64_t b, uint64_t c)
{
    uint64_t s = a * 0x9E3779B97F4A7C15ull + 0x1234567;
    uint64_t r = splitmix64(s);
    s ^= b * 0xD1B54A32D192ED03ull;
    r ^= splitmix64(s);
    s ^= c * 0x8CB92BA72F3D8DD7ull;
    r ^= splitmix64(s);
    return r;
}
struct Rng
{
    uint64_t s;
    explicit Rng(uint64_t seed) : s(seed) {}
    uint64_t next() { return splitmix64(s); }
    // uniform in [0,n)
    uint64_t below(uint64_t n) { return n ? next() % n : 0; }
    int64_t range(int64_t lo, int64_t hi) { return lo + (int64_t)below((uint64_t)(hi - lo + 1)); }
    bool chance(unsigned num, unsigned den) { return below(den) < num; }
    template <class T> const T &pick(const std::vector<T> &v) { return v[below(v.size())]; }
};

// ---------------------------------------------------------------- plan
typedef std::vector<int64_t> Op;
struct Plan
{
    std::vector<int64_t> cfg;
    std::vector<Op> ops;
    int64_t c(size_t i, int64_t dflt = 0) const { return i < cfg.size() ? cfg[i] : dflt; }
};
static inline int64_t arg(const Op &o, size_t i, int64_t dflt = 0) { return i < o.size() ? o[i] : dflt; }
// non-negative modulo: every designator in a plan is interpreted modulo what is valid now
static inline int64_t mod(int64_t a, int64_t n)
{
    if (n <= 0) return 0;
    int64_t r = a % n;
    return r < 0 ? r + n : r;
}

static inline std::string plan_to_json(const Plan &p)
{
    std::string s = "{\"cfg\":[";
    char b[32];
    for (size_t i = 0; i < p.cfg.size(); i++)
    {
        snprintf(b, sizeof b, "%s%lld", i ? "," : "", (long long)p.cfg[i]);
        s += b;
    }
    s += "],\"ops\":[";
    for (size_t i = 0; i < p.ops.size(); i++)
    {
        s += i ? ",[" : "[";
        for (size_t j = 0; j < p.ops[i].size(); j++)
        {
            snprintf(b, sizeof b, "%s%lld", j ? "," : "", (long long)p.ops[i][j]);
            s += b;
        }
        s += "]";
    }
    s += "]}";
    return s;
}
// parses exactly the format above (whitespace tolerant, key order cfg then ops or any)
static inline bool plan_from_json(const std::string &s, Plan &p)
{
    p.cfg.clear();
    p.ops.clear();
    size_t i = 0, n = s.size();
    auto ws = [&]() { while (i < n && (s[i] == ' ' || s[i] == '\n' || s[i] == '\t' || s[i] == '\r')) i++; };
    auto num = [&](int64_t &v) -> bool {
        ws();
        size_t st = i;
        if (i < n && (s[i] == '-' || s[i] == '+')) i++;
        while (i < n && s[i] >= '0' && s[i] <= '9') i++;
        if (st == i) return false;
        v = strtoll(s.substr(st, i - st).c_str(), 0, 10);
        return true;
    };
    auto arr = [&](std::vector<int64_t> &v) -> bool {
        ws();
        if (i >= n || s[i] != '[') return false;
        i++;
        ws();
        if (i < n && s[i] == ']') { i++; return true; }
        for (;;)
        {
            int64_t x;
            if (!num(x)) return false;
            v.push_back(x);
            ws();
            if (i < n && s[i] == ',') { i++; continue; }
            if (i < n && s[i] == ']') { i++; return true; }
            return false;
        }
    };
    bool gotcfg = false, gotops = false;
    while (i < n)
    {
        size_t k = s.find('"', i);
        if (k == std::string::npos) break;
        size_t k2 = s.find('"', k + 1);
        if (k2 == std::string::npos) break;
        std::string key = s.substr(k + 1, k2 - k - 1);
        i = k2 + 1;
        ws();
        if (i < n && s[i] == ':') i++;
        if (key == "cfg")
        {
            if (!arr(p.cfg)) return false;
            gotcfg = true;
        }
        else if (key == "ops")
        {
            ws();
            if (i >= n || s[i] != '[') return false;
            i++;
            ws();
            if (i < n && s[i] == ']') { i++; gotops = true; continue; }
            for (;;)
            {
                Op o;
                if (!arr(o)) return false;
                p.ops.push_back(o);
                ws();
                if (i < n && s[i] == ',') { i++; continue; }
                if (i < n && s[i] == ']') { i++; break; }
                return false;
            }
            gotops = true;
        }
        else
        {
            // skip unknown scalar/array/string values crudely: advance to next '"' at depth 0
            int depth = 0;
            bool instr = false;
            while (i < n)
            {
                char ch = s[i];
                if (instr) { if (ch == '\\') i++; else if (ch == '"') instr = false; i++; continue; }
                if (ch == '"') { if (depth == 0) { instr = true; } else instr = true; i++; continue; }
                if (ch == '[' || ch == '{') depth++;
                if (ch == ']' || ch == '}') { if (depth == 0) break; depth--; }
                if (ch == ',' && depth == 0) { i++; break; }
                i++;
            }
        }
    }
    return gotcfg && gotops;
}

static inline std::string json_escape(const std::string &in)
{
    std::string o;
    for (unsigned char c : in)
    {
        if (c == '"') o += "\\\"";
        else if (c == '\\') o += "\\\\";
        else if (c == '\n') o += "\\n";
        else if (c == '\t') o += "\\t";
        else if (c < 0x20 || c >= 0x7f) { char b[8]; snprintf(b, sizeof b, "\\u%04x", c); o += b; }
        else o += (char)c;
    }
    return o;
}

// ---------------------------------------------------------------- trace + counters
struct Trace
{
    uint64_t h = 0xcbf29ce484222325ull;
    uint64_t nev = 0;
    bool verbose = false;
    std::vector<std::string> lines;
    void bytes(const void *p, size_t n)
    {
        const unsigned char *b = (const unsigned char *)p;
        for (size_t i = 0; i < n; i++) { h ^= b[i]; h *= 0x100000001b3ull; }
    }
    void u(uint64_t v) { bytes(&v, sizeof v); nev++; }
    void ev(const char *fmt, ...) __attribute__((format(printf, 2, 3)))
    {
        char buf[512];
        va_list ap;
        va_start(ap, fmt);
        int n = vsnprintf(buf, sizeof buf, fmt, ap);
        va_end(ap);
        if (n < 0) n = 0;
        if (n >= (int)sizeof buf) n = sizeof buf - 1;
        bytes(buf, (size_t)n);
        bytes("\n", 1);
        nev++;
        if (verbose) lines.push_back(buf);
    }
};

struct Violation
{
    std::string sig;    // stable class: oracle/api[/trigger class]
    std::string detail; // free text (may contain values; never addresses)
};
[[noreturn]] static inline void violate(const std::string &sig, const char *fmt, ...) __attribute__((format(printf, 2, 3)));
[[noreturn]] static inline void violate(const std::string &sig, const char *fmt, ...)
{
    char buf[1024];
    va_list ap;
    va_start(ap, fmt);
    vsnprintf(buf, sizeof buf, fmt, ap);
    va_end(ap);
    throw Violation{sig, buf};
}

// Deferred violations: recorded from places that must not throw (destructors, deallocate inside a destructor);
// the harness polls check_deferred() after every step and exec_plan() polls once more at the end of the run.
struct Deferred
{
    bool pending = false;
    Violation v;
};
static inline Deferred &deferred()
{
    static Deferred d;
    return d;
}
static inline void defer_violation(const std::string &sig, const char *fmt, ...) __attribute__((format(printf, 2, 3)));
static inline void defer_violation(const std::string &sig, const char *fmt, ...)
{
    if (deferred().pending) return; // first one wins
    char buf[1024];
    va_list ap;
    va_start(ap, fmt);
    vsnprintf(buf, sizeof buf, fmt, ap);
    va_end(ap);
    deferred().pending = true;
    deferred().v = Violation{sig, buf};
}
static inline void check_deferred()
{
    if (deferred().pending)
    {
        deferred().pending = false;
        throw deferred().v;
    }
}

struct Result
{
    bool violation = false;
    std::string sig, detail;
    uint64_t hash = 0;
    uint64_t steps = 0;      // simulated steps / events / bytes covered by this run
    uint64_t simtime = 0;    // simulated time units covered (engine specific)
    bool nontrivial = false; // per-property rule, see DESIGN.md appendix B
};

// process-wide counters (faults fired, probes hit); summed by the driver over workers
struct Counters
{
    std::map<std::string, uint64_t> m;
    void add(const std::string &k, uint64_t n = 1) { m[k] += n; }
};
inline Counters &counters() // (one instance per program: probes fired in any harness translation unit are reported)
{
    static Counters c;
    return c;
}
static inline void probe(const char *name, uint64_t n = 1) { counters().add(std::string("probe.") + name, n); }
static inline void fault(const char *kind, uint64_t n = 1) { counters().add(std::string("fault.") + kind, n); }
static inline void stat(const char *name, uint64_t n = 1) { counters().add(std::string("stat.") + name, n); }

// generator switches named in known_findings.txt ("avoid=<slug>")
static inline std::set<std::string> &avoid_set()
{
    static std::set<std::string> s;
    return s;
}
static inline bool avoid(const char *slug) { return avoid_set().count(slug) != 0; }

enum Tier { QUICK = 0, THOROUGH = 1 };

struct World
{
    virtual ~World() {}
    virtual const char *name() const = 0;
    // weight of this world in the swarm (relative number of runs)
    virtual unsigned weight(Tier) const { return 1; }
    virtual Plan generate(Rng &rng, Tier tier) = 0;
    // must be a pure function of the plan (and the code under test)
    virtual Result execute(const Plan &plan, Trace &tr) = 0;
    virtual std::string describe(const Plan &plan)
    {
        return plan_to_json(plan);
    }
};

struct Harness
{
    const char *property;
    std::vector<World *> worlds;
    std::vector<std::string> real, stub; // components, for the evidence file
};

// cfg[0] of every plan is the world index
static inline Plan gen_plan(Harness &h, uint64_t seed, Tier tier, uint64_t i)
{
    Rng rng(mix3(seed, (uint64_t)tier + 1, i));
    unsigned tot = 0;
    for (auto w : h.worlds) tot += w->weight(tier);
    unsigned r = (unsigned)rng.below(tot), wi = 0;
    for (; wi < h.worlds.size(); wi++)
    {
        unsigned wgt = h.worlds[wi]->weight(tier);
        if (r < wgt) break;
        r -= wgt;
    }
    if (wi >= h.worlds.size()) wi = 0;
    Plan p = h.worlds[wi]->generate(rng, tier);
    p.cfg.insert(p.cfg.begin(), (int64_t)wi);
    return p;
}

static inline Result exec_plan(Harness &h, const Plan &full, Trace &tr)
{
    Result r;
    if (full.cfg.empty()) { r.hash = 0; return r; }
    size_t wi = (size_t)mod(full.cfg[0], (int64_t)h.worlds.size());
    Plan p = full;
    p.cfg.erase(p.cfg.begin());
    deferred().pending = false;
    try
    {
        r = h.worlds[wi]->execute(p, tr);
        check_deferred();
    }
    catch (const Violation &v)
    {
        r.violation = true;
        r.sig = v.sig;
        r.detail = v.detail;
    }
    for (auto &ch : r.sig) // signatures travel in space-separated protocol lines
        if (ch == ' ' || ch == '\t' || ch == '\n') ch = '_';
    r.hash = tr.h;
    if (r.steps == 0) r.steps = tr.nev;
    return r;
}

static inline std::string describe_plan(Harness &h, const Plan &full)
{
    if (full.cfg.empty()) return "{}";
    size_t wi = (size_t)mod(full.cfg[0], (int64_t)h.worlds.size());
    Plan p = full;
    p.cfg.erase(p.cfg.begin());
    return std::string(h.worlds[wi]->name()) + ": " + h.worlds[wi]->describe(p);
}

static inline void parse_avoid(const char *s)
{
    std::string cur;
    for (const char *p = s;; p++)
    {
        if (*p == ',' || *p == 0)
        {
            if (!cur.empty()) avoid_set().insert(cur);
            cur.clear();
            if (!*p) break;
        }
        else cur += *p;
    }
}

static inline int harness_main(Harness &h, int argc, char **argv)
{
    setvbuf(stdout, 0, _IOLBF, 0);
    if (argc < 2) { fprintf(stderr, "usage: run|gen|exec|info\n"); return 2; }
    std::string mode = argv[1];
    std::vector<std::string> pos;
    bool verbose = false;
    uint64_t from = 0;
    for (int i = 2; i < argc; i++)
    {
        std::string a = argv[i];
        if (a == "--verbose") verbose = true;
        else if (a == "--avoid" && i + 1 < argc) parse_avoid(argv[++i]);
        else if (a == "--from" && i + 1 < argc) from = strtoull(argv[++i], 0, 10);
        else pos.push_back(a);
    }
    if (mode == "info")
    {
        printf("{\"property\":\"%s\",\"worlds\":[", h.property);
        for (size_t i = 0; i < h.worlds.size(); i++) printf("%s\"%s\"", i ? "," : "", h.worlds[i]->name());
        printf("],\"real\":[");
        for (size_t i = 0; i < h.real.size(); i++) printf("%s\"%s\"", i ? "," : "", json_escape(h.real[i]).c_str());
        printf("],\"stub\":[");
        for (size_t i = 0; i < h.stub.size(); i++) printf("%s\"%s\"", i ? "," : "", json_escape(h.stub[i]).c_str());
        printf("]}\n");
        return 0;
    }
    if (mode == "gen")
    {
        if (pos.size() < 3) return 2;
        Tier t = pos[0] == "thorough" ? THOROUGH : QUICK;
        Plan p = gen_plan(h, strtoull(pos[1].c_str(), 0, 10), t, strtoull(pos[2].c_str(), 0, 10));
        printf("%s\n", plan_to_json(p).c_str());
        return 0;
    }
    if (mode == "run")
    {
        if (pos.size() < 5) return 2;
        Tier t = pos[0] == "thorough" ? THOROUGH : QUICK;
        uint64_t seed = strtoull(pos[1].c_str(), 0, 10);
        uint64_t shard = strtoull(pos[2].c_str(), 0, 10), nsh = strtoull(pos[3].c_str(), 0, 10);
        uint64_t nruns = strtoull(pos[4].c_str(), 0, 10);
        unsigned nsamples = 0;
        for (uint64_t i = shard; i < nruns; i += nsh)
        {
            if (i < from) continue;
            Plan p = gen_plan(h, seed, t, i);
            printf("BEGIN %llu\n", (unsigned long long)i);
            Trace tr;
            Result r = exec_plan(h, p, tr);
            if (r.violation)
                printf("FAIL %llu %016llx %s\t%s\n", (unsigned long long)i, (unsigned long long)r.hash,
                       r.sig.c_str(), json_escape(r.detail).c_str());
            printf("END %llu %016llx %d %llu %llu w%lld\n", (unsigned long long)i, (unsigned long long)r.hash,
                   r.nontrivial ? 1 : 0, (unsigned long long)r.steps, (unsigned long long)r.simtime,
                   (long long)p.cfg[0]);
            if (shard == 0 && nsamples < 3 && (r.nontrivial || i + nsh >= nruns))
            {
                std::string d = describe_plan(h, p);
                if (d.size() > 1500) d = d.substr(0, 1500) + "...";
                printf("SAMPLE %llu %s\n", (unsigned long long)i, json_escape(d).c_str());
                nsamples++;
            }
        }
        printf("STATS {");
        bool first = true;
        for (auto &kv : counters().m)
        {
            printf("%s\"%s\":%llu", first ? "" : ",", kv.first.c_str(), (unsigned long long)kv.second);
            first = false;
        }
        printf("}\n");
        printf("DONE\n");
        return 0;
    }
    if (mode == "exec")
    {
        // one plan per input line; answers one RES line per plan
        std::string line;
        int ch;
        for (;;)
        {
            line.clear();
            while ((ch = getchar()) != EOF && ch != '\n') line += (char)ch;
            if (line.empty() && ch == EOF) break;
            if (line.empty()) continue;
            Plan p;
            if (!plan_from_json(line, p)) { printf("RES bad-plan\n"); continue; }
            Trace tr;
            tr.verbose = verbose;
            printf("BEGIN 0\n");
            Result r = exec_plan(h, p, tr);
            if (verbose)
            {
                printf("PLAN %s\n", describe_plan(h, p).c_str());
                for (auto &l : tr.lines) printf("  | %s\n", l.c_str());
            }
            printf("RES %d %016llx %d %s\t%s\n", r.violation ? 1 : 0, (unsigned long long)r.hash,
                   r.nontrivial ? 1 : 0, r.violation ? r.sig.c_str() : "-", json_escape(r.detail).c_str());
            fflush(stdout);
            if (ch == EOF) break;
        }
        return 0;
    }
    return 2;
}

} // namespace kit

// AddressSanitizer defaults for harnesses built with it: exit code 77 classifies a memory error,
// leak accounting is done by the harnesses' own registries (DESIGN.md 3.6).
#if defined(__SANITIZE_ADDRESS__)
#define KIT_ASAN 1
#elif defined(__has_feature)
#if __has_feature(address_sanitizer)
#define KIT_ASAN 1
#endif
#endif
#define KIT_ASAN_OPTIONS()                                                                                   \
    extern "C" __attribute__((used, visibility("default"))) const char *__asan_default_options()             \
    {                                                                                                        \
        return "exitcode=77:detect_leaks=0:abort_on_error=0:detect_stack_use_after_return=1:"                \
               "allocator_may_return_null=1:handle_abort=1";                                                 \
    }
