// Tracked — an element type that observes its own lifetime (DESIGN.md 4.6). A registry of live object addresses turns
// "constructed over a live object", "destroyed twice / never constructed", "assigned to or moved/copied from an object
// that is not alive" into reports at the faulty call; each Tracked owns a heap cell, so ASan sees double frees and leaks
// are counted. Reports are deferred (never thrown from a destructor); the harness polls kit::check_deferred().
#pragma once
#include "kit.h"
#include <set>
#include <vector>

namespace tracked
{
    struct Registry
    {
        std::set<const void *> live;
        const char *prop = "Cxx";
        // optional: while `guard` is set (the harness sets it around calls into a fixed-capacity container) elements may
        // only be constructed inside one of these storage intervals
        std::vector<std::pair<const char *, const char *>> zones;
        bool guard = false;
        // fault injection: the k-th value/copy construction from now throws (0 = off)
        int throw_after = 0;
        uint64_t constructed = 0, destroyed = 0, cells = 0;
        void reset(const char *p)
        {
            live.clear();
            prop = p;
            zones.clear();
            guard = false;
            throw_after = 0;
            constructed = destroyed = 0;
            cells = 0;
        }
    };
    inline Registry &reg()
    {
        static Registry r;
        return r;
    }
    inline std::string sig(const char *what) { return std::string(reg().prop) + "/lifetime-" + what; }
    struct Boom
    {
    };
    inline void maybe_throw()
    {
        Registry &r = reg();
        if (r.throw_after > 0 && --r.throw_after == 0)
        {
            kit::fault("element_constructor_throws");
            throw Boom();
        }
    }

    struct T
    {
        int v;
        int *cell;
        bool born(const char *how)
        {
            Registry &r = reg();
            if (r.live.count(this))
            {
                kit::defer_violation(sig("construct-over-live"), "%s constructs an element in a slot that already holds a live element", how);
                return false;
            }
            if (r.guard)
            {
                bool inside = false;
                for (auto &z : r.zones)
                    if ((const char *)this >= z.first && (const char *)(this + 1) <= z.second) inside = true;
                if (!inside) kit::defer_violation(sig("construct-outside-storage"), "%s constructs an element outside the container's element storage", how);
            }
            r.live.insert(this);
            r.constructed++;
            return true;
        }
        bool alive(const T *p, const char *what) const
        {
            if (!reg().live.count(p))
            {
                kit::defer_violation(sig(what), "operation '%s' touches an element slot that holds no constructed element (unconstructed or already destroyed)", what);
                return false;
            }
            return true;
        }
        T() : v(0), cell(nullptr)
        {
            born("default constructor");
            cell = new int(0);
            reg().cells++;
        }
        T(int x) : v(x), cell(nullptr)
        {
            maybe_throw(); // before the object counts as constructed
            born("value constructor");
            cell = new int(x);
            reg().cells++;
        }
        T(const T &o) : v(0), cell(nullptr)
        {
            maybe_throw();
            born("copy constructor");
            if (alive(&o, "copy-from-dead")) v = o.v;
            cell = new int(v);
            reg().cells++;
        }
        T(T &&o) : v(0), cell(nullptr)
        {
            born("move constructor");
            if (alive(&o, "move-from-dead"))
            {
                v = o.v;
                cell = o.cell;
                o.cell = nullptr;
                o.v = -777;
            }
            if (!cell) { cell = new int(v); reg().cells++; }
        }
        T &operator=(const T &o)
        {
            if (!alive(this, "assign-to-dead")) return *this;
            if (!alive(&o, "copy-from-dead")) return *this;
            v = o.v;
            if (!cell) { cell = new int(v); reg().cells++; }
            *cell = v;
            return *this;
        }
        T &operator=(T &&o)
        {
            if (!alive(this, "assign-to-dead")) return *this;
            if (!alive(&o, "move-from-dead")) return *this;
            if (this == &o) return *this;
            v = o.v;
            if (cell) { delete cell; reg().cells--; }
            cell = o.cell;
            o.cell = nullptr;
            o.v = -777;
            if (!cell) { cell = new int(v); reg().cells++; }
            return *this;
        }
        ~T()
        {
            Registry &r = reg();
            if (!r.live.count(this))
            {
                kit::defer_violation(sig("destroy-dead"), "destructor runs on a slot that holds no constructed element (destroyed twice or never constructed)");
                return;
            }
            r.live.erase(this);
            r.destroyed++;
            if (cell) { delete cell; r.cells--; }
            cell = nullptr;
        }
        int value() const
        {
            if (!alive(this, "read-of-dead")) return -999;
            return v;
        }
        bool operator==(const T &o) const { return value() == o.value(); }
        bool operator!=(const T &o) const { return value() != o.value(); }
        bool operator<(const T &o) const { return value() < o.value(); }
    };
    // end-of-run conservation: every constructed element destroyed exactly once, no owned cell leaked
    inline void check_balance()
    {
        Registry &r = reg();
        if (!r.live.empty())
            kit::violate(sig("leak"), "%zu element(s) were constructed and never destroyed (constructed %llu, destroyed %llu)", r.live.size(),
                         (unsigned long long)r.constructed, (unsigned long long)r.destroyed);
        if (r.cells != 0) kit::violate(sig("cell-leak"), "%llu heap cell(s) owned by elements were never released", (unsigned long long)r.cells);
    }
}
