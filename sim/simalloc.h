// SimAlloc — the simulated memory behind every `Allocator` template parameter and every placement of an object
// under test (DESIGN.md 3.2). Per run the plan picks what fresh memory contains (0x00 / 0xFF / 0xA5 / pseudo-random)
// and whether a just-freed block is handed out again at once; blocks are exact-size (ASan red zones around them),
// deallocate(p, n) is checked against allocate(n), and the balance is checked at the end of the run.
#pragma once
#include "kit.h"
#include <map>
#include <cstdlib>
#include <cstring>
#include <new>

namespace simalloc
{
    struct State
    {
        int fill = 0;            // 0: 0x00, 1: 0xFF, 2: 0xA5, 3: pseudo-random
        bool reuse = false;      // hand the most recently freed block of the same size out again
        uint64_t rnd = 1;
        std::map<void *, size_t> live;
        std::multimap<size_t, void *> parked; // freed blocks kept for immediate reuse
        uint64_t allocs = 0, frees = 0;
        bool refuse_next = false; // fault: the next request is refused (std::bad_alloc), as an exhausted heap would
        void reset(int f, bool r)
        {
            refuse_next = false;
            for (auto &kv : parked) ::free(kv.second);
            parked.clear();
            // blocks still live from an aborted run are abandoned (never freed: a stale pointer must not be reused)
            live.clear();
            fill = f & 3;
            reuse = r;
            rnd = 0x9E3779B97F4A7C15ull;
            allocs = frees = 0;
        }
    };
    inline State &st()
    {
        static State s;
        return s;
    }
    inline void *raw_alloc(size_t bytes)
    {
        State &s = st();
        if (s.refuse_next)
        {
            s.refuse_next = false;
            kit::fault("allocation_refused");
            throw std::bad_alloc();
        }
        s.allocs++;
        void *p = nullptr;
        if (s.reuse)
        {
            auto it = s.parked.find(bytes);
            if (it != s.parked.end())
            {
                p = it->second;
                s.parked.erase(it);
                kit::probe("freed_block_reused_at_once");
            }
        }
        if (!p) p = ::malloc(bytes ? bytes : 1);
        unsigned char *b = (unsigned char *)p;
        for (size_t i = 0; i < bytes; i++)
        {
            switch (s.fill)
            {
            case 0: b[i] = 0x00; break;
            case 1: b[i] = 0xFF; break;
            case 2: b[i] = 0xA5; break;
            default: b[i] = (unsigned char)(kit::splitmix64(s.rnd) >> 24); break;
            }
        }
        s.live[p] = bytes;
        return p;
    }
    inline void raw_free(void *p, size_t bytes, const char *who)
    {
        State &s = st();
        if (!p)
        {
            if (bytes) kit::defer_violation(std::string(who) + "/deallocate-null", "deallocate(nullptr, %zu)", bytes);
            return;
        }
        auto it = s.live.find(p);
        if (it == s.live.end())
        {
            kit::defer_violation(std::string(who) + "/deallocate-unknown", "deallocate of a block that is not live (double free or foreign pointer)");
            return;
        }
        if (it->second != bytes)
            kit::defer_violation(std::string(who) + "/deallocate-size", "deallocate(p, %zu bytes) of a block allocated with %zu bytes", bytes, it->second);
        s.live.erase(it);
        s.frees++;
        if (s.reuse) s.parked.emplace(bytes, p); // content left as is: a dangling reader sees stale data, a new owner sees the fill
        else ::free(p);
    }
    inline size_t live_blocks() { return st().live.size(); }

    template <class T> struct Alloc
    {
        typedef T value_type;
        typedef T *pointer;
        typedef const T *const_pointer;
        typedef T &reference;
        typedef const T &const_reference;
        typedef size_t size_type;
        typedef ptrdiff_t difference_type;
        template <class U> struct rebind { typedef Alloc<U> other; };
        Alloc() {}
        template <class U> Alloc(const Alloc<U> &) {}
        T *allocate(size_t n) { return (T *)raw_alloc(n * sizeof(T)); }
        void deallocate(T *p, size_t n) { raw_free(p, n * sizeof(T), "alloc"); }
        template <class U> bool operator==(const Alloc<U> &) const { return true; }
        template <class U> bool operator!=(const Alloc<U> &) const { return false; }
    };
}
