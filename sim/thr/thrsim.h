// E1 `thr` — serialising thread simulator with a happens-before detector (DESIGN.md 4.1).
// Real pthreads, but exactly one is runnable at any time; every pthread mutex / condvar / POSIX semaphore call made
// while a simulated thread runs is intercepted (the executable defines the symbols) and fully modelled; the seeded
// schedule (a list of choices in the plan) decides who runs after every synchronisation point and, optionally,
// after every k-th instrumented memory access. igris TUs are compiled with -fsanitize=thread instrumentation only;
// this file's __tsan_* callbacks feed a vector-clock race detector. Not built with any sanitizer itself.
#pragma once
#include <cstdint>
#include <functional>
#include <string>
#include <vector>

namespace kit { struct Trace; }

namespace thr
{
    enum { MAXT = 8 };

    struct Config
    {
        int sched_mode = 0;               // 0: explicit choice list, 1: PCT priorities
        std::vector<int64_t> choices;     // mode 0: per decision, index into runnable list (current thread first);
                                          //         >= 1000: spurious wake-up of cond waiter (c-1000) then stay
        std::vector<int64_t> prio;        // mode 1: priority per thread (higher runs first)
        std::vector<int64_t> change;      // mode 1: decision numbers at which the running thread drops to lowest priority
        int mem_preempt_every = 0;        // 0: no preemption at memory accesses; k: decision point at every k-th access
        uint64_t step_cap = 20000;        // synchronisation events per run
        std::string prop = "C20";         // property id used as prefix of the violation signatures
    };

    struct Hooks
    {
        // called by the acquiring thread right after it became owner of mutex `mid` (first-use id) at depth `depth`
        std::function<void(int tid, int mid, int depth)> on_acquire;
    };

    struct RunResult
    {
        bool violation = false;
        std::string sig, detail;
        uint64_t steps = 0;        // synchronisation events
        uint64_t decisions = 0;    // scheduling decisions taken
        uint64_t switches = 0;     // context switches
        uint64_t mem_accesses = 0; // instrumented accesses seen
        uint64_t spurious = 0;     // spurious condvar wake-ups injected
        uint64_t overlap_switches = 0; // switches while >= 2 threads were inside the API under test
    };

    // runs the bodies as simulated threads 0..n-1 to completion (or violation / deadlock / cap)
    RunResult run(const Config &cfg, const std::vector<std::function<void()>> &bodies, kit::Trace &tr, Hooks &hooks);

    // ---- callable from simulated threads (program under test / harness hooks)
    int self();                                                   // simulated thread id, -1 outside
    [[noreturn]] void report(const std::string &sig, const std::string &detail); // record a violation and end the run
    void note(const char *fmt, ...) __attribute__((format(printf, 1, 2)));       // trace line (hashed)
    void yield(const char *what);                                 // plain scheduling point
    void block_until(const std::function<bool()> &pred, const char *what); // simulator-native wait, creates NO happens-before edge
    void api_enter();                                             // marks "this thread is inside the API under test"
    void api_exit();
    int mutex_id_of_last_acquire();
    bool blocked_on_condvar(int tid);                             // is that simulated thread parked in a condition wait
}
