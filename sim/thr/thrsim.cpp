// E1 `thr` implementation. See thrsim.h. Compiled WITHOUT sanitizers.
#include "thrsim.h"
#include "../kit.h"

#include <cxxabi.h>
#include <dlfcn.h>
#include <linux/futex.h>
#include <pthread.h>
#include <semaphore.h>
#include <setjmp.h>
#include <sys/syscall.h>
#include <unistd.h>
#include <unordered_map>
#include <cstdarg>
#include <algorithm>

namespace thr
{
    struct VC
    {
        uint32_t c[MAXT] = {0};
        void join(const VC &o)
        {
            for (int i = 0; i < MAXT; i++)
                if (o.c[i] > c[i]) c[i] = o.c[i];
        }
    };

    enum State { RUN, BLK_MUTEX, BLK_COND, BLK_SEM, BLK_PRED };

    struct SimThread
    {
        int id = 0;
        int baton = 0;
        jmp_buf jb;
        pthread_t pt;
        bool done = false, die = false, started = false;
        VC vc;
        State st = RUN;
        void *waitobj = nullptr;
        bool notified = false;
        const std::function<bool()> *pred = nullptr;
        const char *predname = "";
        int in_api = 0;
        const std::function<void()> *fn = nullptr;
    };
    struct MutexModel
    {
        int id;
        int owner = -1;
        int depth = 0;
        bool recursive = false;
        VC vc;
    };
    struct CondModel
    {
        int id;
        bool destroyed = false;
        int destroy_tid = -1;
        uint32_t destroy_clk = 0;
        uint32_t use_clk[MAXT] = {0}; // clock of the last use by each thread
        const char *use_what[MAXT] = {0};
    };
    struct SemModel
    {
        int id;
        int count = 0;
        bool destroyed = false;
        VC vc;
    };
    struct Cell
    {
        int wt = -1;
        uint32_t wc = 0;
        void *wpc = nullptr;
        uint32_t rc[MAXT] = {0};
        void *rpc[MAXT] = {0};
    };

    struct Sim
    {
        Config cfg;
        Hooks *hooks = nullptr;
        kit::Trace *tr = nullptr;
        std::vector<SimThread *> th;
        std::unordered_map<void *, MutexModel> mtx;
        std::unordered_map<void *, CondModel> cond;
        std::unordered_map<void *, SemModel> sem;
        std::unordered_map<uintptr_t, Cell> shadow;
        std::unordered_map<uintptr_t, std::pair<int, VC>> atom; // atomic objects: id (first-use order) and their clock
        int next_aid = 0;
        int next_mid = 0, next_cid = 0, next_sid = 0;
        int main_baton = 0;
        bool aborting = false;
        RunResult res;
        size_t choice_pos = 0;
        SimThread *current = nullptr;
        int last_acquired_mid = -1;
        std::vector<int64_t> prio;
    };

    static Sim *S = nullptr;
    static thread_local SimThread *me = nullptr;

    // ------------------------------------------------------------------ real functions
    template <class F> static F real(const char *name)
    {
        void *p = dlsym(RTLD_NEXT, name);
        if (!p)
        {
            fprintf(stderr, "SIM-FATAL cannot resolve %s\n", name);
            _exit(3);
        }
        return (F)p;
    }
#define REAL(ret, name, ...)                                                                                 \
    typedef ret (*name##_t)(__VA_ARGS__);                                                                    \
    static name##_t real_##name()                                                                            \
    {                                                                                                        \
        static name##_t f = real<name##_t>(#name);                                                           \
        return f;                                                                                            \
    }
    REAL(int, pthread_mutex_lock, pthread_mutex_t *)
    REAL(int, pthread_mutex_trylock, pthread_mutex_t *)
    REAL(int, pthread_mutex_unlock, pthread_mutex_t *)
    REAL(int, pthread_cond_wait, pthread_cond_t *, pthread_mutex_t *)
    REAL(int, pthread_cond_timedwait, pthread_cond_t *, pthread_mutex_t *, const struct timespec *)
    REAL(int, pthread_cond_clockwait, pthread_cond_t *, pthread_mutex_t *, clockid_t, const struct timespec *)
    REAL(int, pthread_cond_signal, pthread_cond_t *)
    REAL(int, pthread_cond_broadcast, pthread_cond_t *)
    REAL(int, pthread_cond_destroy, pthread_cond_t *)
    REAL(int, sem_init, sem_t *, int, unsigned)
    REAL(int, sem_wait, sem_t *)
    REAL(int, sem_trywait, sem_t *)
    REAL(int, sem_post, sem_t *)
    REAL(int, sem_getvalue, sem_t *, int *)
    REAL(int, sem_destroy, sem_t *)

    // ------------------------------------------------------------------ batons
    static void fwait(int &a)
    {
        while (__atomic_load_n(&a, __ATOMIC_ACQUIRE) == 0) syscall(SYS_futex, &a, FUTEX_WAIT, 0, 0, 0, 0);
        __atomic_store_n(&a, 0, __ATOMIC_RELEASE);
    }
    static void fwake(int &a)
    {
        __atomic_store_n(&a, 1, __ATOMIC_RELEASE);
        syscall(SYS_futex, &a, FUTEX_WAKE, 1, 0, 0, 0);
    }

    static bool runnable(SimThread *t)
    {
        switch (t->st)
        {
        case RUN: return true;
        case BLK_MUTEX:
        {
            MutexModel &m = S->mtx[t->waitobj];
            return m.owner == -1;
        }
        case BLK_COND: return t->notified;
        case BLK_SEM: return S->sem[t->waitobj].count > 0;
        case BLK_PRED: return (*t->pred)();
        }
        return false;
    }

    static void kill_next()
    {
        for (auto t : S->th)
            if (!t->done)
            {
                t->die = true;
                fwake(t->baton);
                return;
            }
        fwake(S->main_baton);
    }

    static void set_violation(const std::string &sig, const std::string &detail)
    {
        if (!S->res.violation)
        {
            S->res.violation = true;
            S->res.sig = sig;
            S->res.detail = detail;
        }
    }

    [[noreturn]] static void abort_from_thread(SimThread *self)
    {
        S->aborting = true;
        longjmp(self->jb, 1);
    }

    static std::string describe_blocked()
    {
        std::string s;
        char b[128];
        for (auto t : S->th)
        {
            if (t->done) continue;
            const char *st = "run";
            int oid = -1;
            switch (t->st)
            {
            case RUN: st = "run"; break;
            case BLK_MUTEX: st = "blocked-on-mutex"; oid = S->mtx[t->waitobj].id; break;
            case BLK_COND: st = "waiting-on-condvar"; oid = S->cond[t->waitobj].id; break;
            case BLK_SEM: st = "blocked-on-semaphore"; oid = S->sem[t->waitobj].id; break;
            case BLK_PRED: st = t->predname; break;
            }
            snprintf(b, sizeof b, " T%d:%s#%d", t->id, st, oid);
            s += b;
        }
        return s;
    }

    // the one scheduling function: called by the running thread (self may be done) at every decision point
    static void schedule(SimThread *self)
    {
        if (S->aborting)
        {
            if (self && !self->done) longjmp(self->jb, 1);
            return;
        }
        std::vector<SimThread *> r;
        if (self && !self->done && runnable(self)) r.push_back(self);
        bool alldone = true;
        for (auto t : S->th)
        {
            if (!t->done) alldone = false;
            if (t != self && !t->done && runnable(t)) r.push_back(t);
        }
        if (r.empty())
        {
            if (alldone)
            {
                fwake(S->main_baton);
                return;
            }
            set_violation(S->cfg.prop + "/deadlock", "no runnable thread:" + describe_blocked());
            S->aborting = true;
            if (self && !self->done) longjmp(self->jb, 1);
            kill_next();
            return;
        }
        SimThread *next = r[0];
        S->res.decisions++;
        if (S->cfg.sched_mode == 1)
        {
            // PCT: highest priority runnable; at a change point the running thread drops below everybody
            for (auto cp : S->cfg.change)
                if ((uint64_t)cp == S->res.decisions && self)
                {
                    int64_t lo = 0;
                    for (auto p : S->prio) lo = std::min(lo, p);
                    S->prio[self->id] = lo - 1;
                }
            for (auto t : r)
                if (S->prio[t->id] > S->prio[next->id] || (S->prio[t->id] == S->prio[next->id] && t->id < next->id)) next = t;
        }
        else
        {
            int64_t c = S->choice_pos < S->cfg.choices.size() ? S->cfg.choices[S->choice_pos] : 0;
            S->choice_pos++;
            if (c < 0) c = -c;
            if (c >= 1000)
            {
                // fault: spurious condvar wake-up (legal per POSIX)
                std::vector<SimThread *> w;
                for (auto t : S->th)
                    if (!t->done && t->st == BLK_COND && !t->notified) w.push_back(t);
                if (!w.empty())
                {
                    SimThread *v = w[(size_t)((c - 1000) % (int64_t)w.size())];
                    v->notified = true;
                    S->res.spurious++;
                    S->tr->ev("spurious-wake T%d", v->id);
                }
                c = 0;
            }
            next = r[(size_t)(c % (int64_t)r.size())];
        }
        if (next != self)
        {
            S->res.switches++;
            int inapi = 0;
            for (auto t : S->th)
                if (!t->done && t->in_api) inapi++;
            if (inapi >= 2) S->res.overlap_switches++;
            S->tr->ev("switch T%d->T%d", self ? self->id : -1, next->id);
            S->current = next;
            fwake(next->baton);
            if (self && !self->done)
            {
                fwait(self->baton);
                if (self->die || S->aborting) longjmp(self->jb, 1);
            }
        }
    }

    static void yield_point(const char *what, char kind, int oid)
    {
        SimThread *t = me;
        S->res.steps++;
        S->tr->ev("T%d %s %c%d", t->id, what, kind, oid);
        if (S->res.steps > S->cfg.step_cap)
        {
            set_violation(S->cfg.prop + "/livelock", "step cap exceeded");
            abort_from_thread(t);
        }
        t->vc.c[t->id]++;
        schedule(t);
    }

    static void *tramp(void *arg)
    {
        SimThread *t = (SimThread *)arg;
        me = t;
        if (setjmp(t->jb) == 0)
        {
            fwait(t->baton);
            if (!t->die && !S->aborting)
            {
                t->started = true;
                t->vc.c[t->id] = 1;
                (*t->fn)();
            }
            t->done = true;
            S->tr->ev("T%d exit", t->id);
            if (S->aborting) kill_next();
            else schedule(t);
        }
        else
        {
            // aborted (violation, deadlock, cap): leave without unwinding the simulated thread's frames
            t->done = true;
            kill_next();
        }
        me = nullptr;
        return nullptr;
    }

    RunResult run(const Config &cfg, const std::vector<std::function<void()>> &bodies, kit::Trace &tr, Hooks &hooks)
    {
        Sim sim;
        sim.cfg = cfg;
        sim.hooks = &hooks;
        sim.tr = &tr;
        sim.prio.assign(MAXT, 0);
        for (size_t i = 0; i < cfg.prio.size() && i < MAXT; i++) sim.prio[i] = cfg.prio[i];
        S = &sim;
        size_t n = std::min<size_t>(bodies.size(), MAXT);
        pthread_attr_t at;
        pthread_attr_init(&at);
        pthread_attr_setstacksize(&at, 512 * 1024);
        for (size_t i = 0; i < n; i++)
        {
            SimThread *t = new SimThread();
            t->id = (int)i;
            t->fn = &bodies[i];
            sim.th.push_back(t);
        }
        for (auto t : sim.th)
            if (pthread_create(&t->pt, &at, tramp, t) != 0)
            {
                fprintf(stderr, "SIM-FATAL pthread_create failed\n");
                _exit(3);
            }
        pthread_attr_destroy(&at);
        schedule(nullptr);
        fwait(sim.main_baton);
        for (auto t : sim.th) pthread_join(t->pt, nullptr);
        for (auto t : sim.th) delete t;
        sim.th.clear();
        S = nullptr;
        return sim.res;
    }

    // ------------------------------------------------------------------ API for programs / hooks
    int self() { return me ? me->id : -1; }
    void report(const std::string &sig, const std::string &detail)
    {
        if (!me || !S)
        {
            fprintf(stderr, "SIM-FATAL report outside a run: %s %s\n", sig.c_str(), detail.c_str());
            _exit(3);
        }
        set_violation(sig, detail);
        abort_from_thread(me);
    }
    void note(const char *fmt, ...)
    {
        if (!S) return;
        char buf[400];
        va_list ap;
        va_start(ap, fmt);
        vsnprintf(buf, sizeof buf, fmt, ap);
        va_end(ap);
        S->tr->ev("T%d note %s", me ? me->id : -1, buf);
    }
    void yield(const char *what) { yield_point(what, 'y', 0); }
    void block_until(const std::function<bool()> &pred, const char *what)
    {
        SimThread *t = me;
        S->res.steps++;
        S->tr->ev("T%d wait-for %s", t->id, what);
        schedule(t); // a decision point before the test; a thread chosen while blocked runs on at once, so the
                     // predicate still holds when this returns
        while (!pred())
        {
            t->pred = &pred;
            t->predname = what;
            t->st = BLK_PRED;
            schedule(t);
            t->st = RUN;
            t->pred = nullptr;
        }
    }
    void api_enter() { if (me) me->in_api++; }
    void api_exit() { if (me) me->in_api--; }
    int mutex_id_of_last_acquire() { return S ? S->last_acquired_mid : -1; }
    bool blocked_on_condvar(int tid)
    {
        if (!S || tid < 0 || tid >= (int)S->th.size()) return false;
        return S->th[tid]->st == BLK_COND;
    }

    // ------------------------------------------------------------------ models
    static MutexModel &mm(pthread_mutex_t *m)
    {
        auto it = S->mtx.find(m);
        if (it == S->mtx.end())
        {
            MutexModel x;
            x.id = S->next_mid++;
            x.recursive = (m->__data.__kind & 127) == PTHREAD_MUTEX_RECURSIVE_NP;
            it = S->mtx.emplace(m, x).first;
        }
        return it->second;
    }
    static CondModel &cm(pthread_cond_t *c)
    {
        auto it = S->cond.find(c);
        if (it == S->cond.end())
        {
            CondModel x;
            x.id = S->next_cid++;
            it = S->cond.emplace(c, x).first;
        }
        return it->second;
    }
    static SemModel &sm(sem_t *s)
    {
        auto it = S->sem.find(s);
        if (it == S->sem.end())
        {
            SemModel x;
            x.id = S->next_sid++;
            int v = 0;
            real_sem_getvalue()(s, &v); // created before the run by the set-up code: take over its value
            x.count = v;
            it = S->sem.emplace(s, x).first;
        }
        return it->second;
    }

    static void cond_use(CondModel &c, const char *what)
    {
        SimThread *t = me;
        if (c.destroyed && (c.destroy_tid == t->id || c.destroy_clk <= t->vc.c[c.destroy_tid]))
        {
            // the destruction happens-before this use: a new object was constructed at the same address
            // (std::condition_variable's constructor makes no library call that could be observed)
            int id = c.id;
            c = CondModel();
            c.id = id;
        }
        if (c.destroyed)
        {
            char b[160];
            snprintf(b, sizeof b, "T%d %s on condition variable c%d after it was destroyed", t->id, what, c.id);
            report(S->cfg.prop + "/use-of-destroyed-condvar", b);
        }
        c.use_clk[t->id] = t->vc.c[t->id];
        c.use_what[t->id] = what;
    }

    static int sim_mutex_lock(pthread_mutex_t *m, bool tryonly)
    {
        SimThread *t = me;
        MutexModel &x = mm(m);
        yield_point(tryonly ? "trylock?" : "lock?", 'm', x.id);
        for (;;)
        {
            MutexModel &mx = mm(m);
            if (mx.owner == -1) break;
            if (mx.owner == t->id && mx.recursive) break;
            if (tryonly) return EBUSY;
            t->st = BLK_MUTEX;
            t->waitobj = m;
            if (mx.owner == t->id)
            {
                // non-recursive relock by the owner: can never become runnable
                set_violation(S->cfg.prop + "/self-deadlock", "thread relocked a non-recursive mutex it owns");
                abort_from_thread(t);
            }
            schedule(t);
        }
        MutexModel &mx = mm(m);
        t->st = RUN;
        mx.owner = t->id;
        mx.depth++;
        t->vc.join(mx.vc);
        S->last_acquired_mid = mx.id;
        S->tr->ev("T%d acquired m%d depth=%d", t->id, mx.id, mx.depth);
        if (S->hooks->on_acquire) S->hooks->on_acquire(t->id, mx.id, mx.depth);
        return 0;
    }
    static int sim_mutex_unlock(pthread_mutex_t *m)
    {
        SimThread *t = me;
        MutexModel &mx = mm(m);
        if (mx.owner != t->id)
        {
            char b[128];
            snprintf(b, sizeof b, "T%d unlocks mutex m%d owned by %d", t->id, mx.id, mx.owner);
            report(S->cfg.prop + "/unlock-not-owner", b);
        }
        mx.vc.join(t->vc);
        if (--mx.depth == 0) mx.owner = -1;
        int id = mx.id;
        yield_point("unlock", 'm', id);
        return 0;
    }
    static int sim_cond_wait(pthread_cond_t *c, pthread_mutex_t *m)
    {
        SimThread *t = me;
        CondModel &cx = cm(c);
        cond_use(cx, "wait");
        MutexModel &mx = mm(m);
        if (mx.owner != t->id) report(S->cfg.prop + "/cond-wait-without-mutex", "condition wait without owning the mutex");
        int depth = mx.depth;
        mx.vc.join(t->vc);
        mx.depth = 0;
        mx.owner = -1;
        S->res.steps++;
        S->tr->ev("T%d cond-wait c%d m%d", t->id, cx.id, mx.id);
        t->vc.c[t->id]++;
        t->st = BLK_COND;
        t->waitobj = c;
        t->notified = false;
        schedule(t);
        // woken (notified or spuriously): the condvar is touched again on the way out, then the mutex is re-acquired
        {
            CondModel &c2 = cm(c);
            cond_use(c2, "wait-return");
        }
        for (;;)
        {
            MutexModel &m2 = mm(m);
            if (m2.owner == -1) break;
            t->st = BLK_MUTEX;
            t->waitobj = m;
            schedule(t);
        }
        MutexModel &m2 = mm(m);
        t->st = RUN;
        m2.owner = t->id;
        m2.depth = depth;
        t->vc.join(m2.vc);
        S->tr->ev("T%d cond-woken c%d", t->id, cm(c).id);
        return 0;
    }
    static int sim_cond_notify(pthread_cond_t *c, bool all)
    {
        SimThread *t = me;
        CondModel &cx = cm(c);
        cond_use(cx, all ? "broadcast" : "signal");
        std::vector<SimThread *> w;
        for (auto o : S->th)
            if (!o->done && o->st == BLK_COND && o->waitobj == c && !o->notified) w.push_back(o);
        if (!w.empty())
        {
            if (all)
                for (auto o : w) o->notified = true;
            else
            {
                // which waiter a signal wakes is the simulated OS's choice: taken from the schedule
                int64_t ch = S->choice_pos < S->cfg.choices.size() ? S->cfg.choices[S->choice_pos] : 0;
                S->choice_pos++;
                if (ch < 0) ch = -ch;
                w[(size_t)(ch % (int64_t)w.size())]->notified = true;
            }
        }
        int id = cx.id;
        yield_point(all ? "broadcast" : "signal", 'c', id);
        return 0;
    }
    static int sim_cond_destroy(pthread_cond_t *c)
    {
        SimThread *t = me;
        CondModel &cx = cm(c);
        for (int u = 0; u < MAXT; u++)
        {
            if (u == t->id) continue;
            if (cx.use_clk[u] > t->vc.c[u])
            {
                char b[200];
                snprintf(b, sizeof b,
                         "T%d destroys condition variable c%d while T%d's %s on it is not ordered before the destruction",
                         t->id, cx.id, u, cx.use_what[u] ? cx.use_what[u] : "use");
                report(S->cfg.prop + "/condvar-destroyed-concurrently-with-use", b);
            }
        }
        for (auto o : S->th)
            if (!o->done && o->st == BLK_COND && o->waitobj == c)
                report(S->cfg.prop + "/condvar-destroyed-with-waiters", "condition variable destroyed while a thread waits on it");
        cx.destroyed = true;
        cx.destroy_tid = t->id;
        cx.destroy_clk = t->vc.c[t->id];
        S->tr->ev("T%d cond-destroy c%d", t->id, cx.id);
        return 0;
    }
    static int sim_sem_wait(sem_t *s, bool tryonly)
    {
        SimThread *t = me;
        SemModel &x = sm(s);
        yield_point(tryonly ? "sem-trywait?" : "sem-wait?", 's', x.id);
        for (;;)
        {
            SemModel &sx = sm(s);
            if (sx.count > 0) break;
            if (tryonly)
            {
                errno = EAGAIN;
                return -1;
            }
            t->st = BLK_SEM;
            t->waitobj = s;
            schedule(t);
        }
        SemModel &sx = sm(s);
        t->st = RUN;
        sx.count--;
        t->vc.join(sx.vc);
        S->tr->ev("T%d sem-acquired s%d", t->id, sx.id);
        return 0;
    }
    static int sim_sem_post(sem_t *s)
    {
        SimThread *t = me;
        SemModel &sx = sm(s);
        sx.vc.join(t->vc);
        sx.count++;
        int id = sx.id;
        yield_point("sem-post", 's', id);
        return 0;
    }

    // ------------------------------------------------------------------ happens-before detector
    static std::string fname(void *pc)
    {
        Dl_info di;
        if (pc && dladdr(pc, &di) && di.dli_sname)
        {
            int st = 0;
            char *d = abi::__cxa_demangle(di.dli_sname, 0, 0, &st);
            std::string s = (st == 0 && d) ? d : di.dli_sname;
            if (false) { char ob[32]; snprintf(ob, sizeof ob, "+%lx", (unsigned long)((char *)pc - (char *)di.dli_fbase)); s += ob; }
            free(d);
            size_t p = s.find('(');
            if (p != std::string::npos) s = s.substr(0, p);
            // drop template arguments for a stable, short class name
            std::string o;
            int depth = 0;
            for (char ch : s)
            {
                if (ch == '<') depth++;
                else if (ch == '>') depth--;
                else if (depth == 0) o += ch;
            }
            size_t sp = o.rfind(' ');
            if (sp != std::string::npos) o = o.substr(sp + 1);
            return o;
        }
        if (pc && dladdr(pc, &di) && di.dli_fbase)
        {
            char ob[40];
            snprintf(ob, sizeof ob, "?+%lx", (unsigned long)((char *)pc - (char *)di.dli_fbase));
            return ob;
        }
        return "?";
    }

    [[noreturn]] static void race(SimThread *t, uintptr_t addr, bool w, void *pc, int ot, bool ow, void *opc)
    {
        std::string a = fname(pc), b = fname(opc);
        char buf[400];
        snprintf(buf, sizeof buf, "data race: T%d %s in %s is unordered with T%d's earlier %s in %s (no happens-before edge)",
                 t->id, w ? "write" : "read", a.c_str(), ot, ow ? "write" : "read", b.c_str());
        (void)addr;
        std::string lo = std::min(a, b), hi = std::max(a, b);
        report(S->cfg.prop + "/race:" + lo + "|" + hi, buf);
    }

    static inline void access(uintptr_t p, size_t n, bool w, void *pc)
    {
        SimThread *t = me;
        if (!t || !S || S->aborting) return;
        S->res.mem_accesses++;
        for (size_t i = 0; i < n; i++)
        {
            Cell &c = S->shadow[p + i];
            if (c.wt >= 0 && c.wt != t->id && c.wc > t->vc.c[c.wt]) race(t, p + i, w, pc, c.wt, true, c.wpc);
            if (w)
            {
                for (int u = 0; u < MAXT; u++)
                    if (u != t->id && c.rc[u] > t->vc.c[u]) race(t, p + i, w, pc, u, false, c.rpc[u]);
                c.wt = t->id;
                c.wc = t->vc.c[t->id];
                c.wpc = pc;
            }
            else
            {
                c.rc[t->id] = t->vc.c[t->id];
                c.rpc[t->id] = pc;
            }
        }
        int k = S->cfg.mem_preempt_every;
        if (k > 0 && S->res.mem_accesses % (uint64_t)k == 0) schedule(t);
    }
}

namespace thr
{
    // every atomic operation of instrumented code is a scheduling point and (conservatively) a sequentially consistent
    // synchronisation: it joins the thread's clock with the object's clock both ways, so atomics never cause a false race
    static void atomic_sync(const volatile void *a, const char *what)
    {
        SimThread *t = me;
        if (!t || !S || S->aborting) return;
        auto it = S->atom.find((uintptr_t)a);
        if (it == S->atom.end()) it = S->atom.emplace((uintptr_t)a, std::make_pair(S->next_aid++, VC())).first;
        t->vc.join(it->second.second);
        it->second.second.join(t->vc);
        yield_point(what, 'a', it->second.first);
    }
}

using namespace thr;

// ---------------------------------------------------------------------- interposed libc symbols
extern "C"
{
    int pthread_mutex_lock(pthread_mutex_t *m)
    {
        if (!me || !S) return real_pthread_mutex_lock()(m);
        return sim_mutex_lock(m, false);
    }
    int pthread_mutex_trylock(pthread_mutex_t *m)
    {
        if (!me || !S) return real_pthread_mutex_trylock()(m);
        return sim_mutex_lock(m, true);
    }
    int pthread_mutex_unlock(pthread_mutex_t *m)
    {
        if (!me || !S) return real_pthread_mutex_unlock()(m);
        return sim_mutex_unlock(m);
    }
    int pthread_cond_wait(pthread_cond_t *c, pthread_mutex_t *m)
    {
        if (!me || !S) return real_pthread_cond_wait()(c, m);
        return sim_cond_wait(c, m);
    }
    int pthread_cond_timedwait(pthread_cond_t *c, pthread_mutex_t *m, const struct timespec *ts)
    {
        if (!me || !S) return real_pthread_cond_timedwait()(c, m, ts);
        return sim_cond_wait(c, m);
    }
    int pthread_cond_clockwait(pthread_cond_t *c, pthread_mutex_t *m, clockid_t clk, const struct timespec *ts)
    {
        if (!me || !S) return real_pthread_cond_clockwait()(c, m, clk, ts);
        return sim_cond_wait(c, m);
    }
    int pthread_cond_signal(pthread_cond_t *c)
    {
        if (!me || !S) return real_pthread_cond_signal()(c);
        return sim_cond_notify(c, false);
    }
    int pthread_cond_broadcast(pthread_cond_t *c)
    {
        if (!me || !S) return real_pthread_cond_broadcast()(c);
        return sim_cond_notify(c, true);
    }
    int pthread_cond_destroy(pthread_cond_t *c)
    {
        if (!me || !S) return real_pthread_cond_destroy()(c);
        return sim_cond_destroy(c);
    }
    int sem_init(sem_t *s, int sh, unsigned v)
    {
        if (!me || !S) return real_sem_init()(s, sh, v);
        SemModel &sx = sm(s);
        sx.count = (int)v;
        sx.destroyed = false;
        return 0;
    }
    int sem_wait(sem_t *s)
    {
        if (!me || !S) return real_sem_wait()(s);
        return sim_sem_wait(s, false);
    }
    int sem_trywait(sem_t *s)
    {
        if (!me || !S) return real_sem_trywait()(s);
        return sim_sem_wait(s, true);
    }
    int sem_post(sem_t *s)
    {
        if (!me || !S) return real_sem_post()(s);
        return sim_sem_post(s);
    }
    int sem_getvalue(sem_t *s, int *v)
    {
        if (!me || !S) return real_sem_getvalue()(s, v);
        *v = sm(s).count;
        return 0;
    }
    int sem_destroy(sem_t *s)
    {
        if (!me || !S) return real_sem_destroy()(s);
        sm(s).destroyed = true;
        return 0;
    }

    // ------------------------------------------------------------------ -fsanitize=thread callbacks (no runtime linked)
#define PC __builtin_return_address(0)
    void __tsan_init() {}
    void __tsan_read1(void *p) { access((uintptr_t)p, 1, false, PC); }
    void __tsan_read2(void *p) { access((uintptr_t)p, 2, false, PC); }
    void __tsan_read4(void *p) { access((uintptr_t)p, 4, false, PC); }
    void __tsan_read8(void *p) { access((uintptr_t)p, 8, false, PC); }
    void __tsan_read16(void *p) { access((uintptr_t)p, 16, false, PC); }
    void __tsan_write1(void *p) { access((uintptr_t)p, 1, true, PC); }
    void __tsan_write2(void *p) { access((uintptr_t)p, 2, true, PC); }
    void __tsan_write4(void *p) { access((uintptr_t)p, 4, true, PC); }
    void __tsan_write8(void *p) { access((uintptr_t)p, 8, true, PC); }
    void __tsan_write16(void *p) { access((uintptr_t)p, 16, true, PC); }
    void __tsan_unaligned_read2(void *p) { access((uintptr_t)p, 2, false, PC); }
    void __tsan_unaligned_read4(void *p) { access((uintptr_t)p, 4, false, PC); }
    void __tsan_unaligned_read8(void *p) { access((uintptr_t)p, 8, false, PC); }
    void __tsan_unaligned_read16(void *p) { access((uintptr_t)p, 16, false, PC); }
    void __tsan_unaligned_write2(void *p) { access((uintptr_t)p, 2, true, PC); }
    void __tsan_unaligned_write4(void *p) { access((uintptr_t)p, 4, true, PC); }
    void __tsan_unaligned_write8(void *p) { access((uintptr_t)p, 8, true, PC); }
    void __tsan_unaligned_write16(void *p) { access((uintptr_t)p, 16, true, PC); }
    void __tsan_read_range(void *p, unsigned long n) { access((uintptr_t)p, n, false, PC); }
    void __tsan_write_range(void *p, unsigned long n) { access((uintptr_t)p, n, true, PC); }
    void __tsan_vptr_update(void **p, void *) { access((uintptr_t)p, 8, true, PC); }
    void __tsan_vptr_read(void **p) { access((uintptr_t)p, 8, false, PC); }
#define TSAN_ATOMIC(N, T)                                                                                        \
    T __tsan_atomic##N##_load(const volatile T *a, int) { atomic_sync(a, "atomic-load"); return __atomic_load_n(a, __ATOMIC_SEQ_CST); } \
    void __tsan_atomic##N##_store(volatile T *a, T v, int) { atomic_sync(a, "atomic-store"); __atomic_store_n(a, v, __ATOMIC_SEQ_CST); } \
    T __tsan_atomic##N##_exchange(volatile T *a, T v, int) { atomic_sync(a, "atomic-xchg"); return __atomic_exchange_n(a, v, __ATOMIC_SEQ_CST); } \
    T __tsan_atomic##N##_fetch_add(volatile T *a, T v, int) { atomic_sync(a, "atomic-rmw"); return __atomic_fetch_add(a, v, __ATOMIC_SEQ_CST); } \
    T __tsan_atomic##N##_fetch_sub(volatile T *a, T v, int) { atomic_sync(a, "atomic-rmw"); return __atomic_fetch_sub(a, v, __ATOMIC_SEQ_CST); } \
    T __tsan_atomic##N##_fetch_and(volatile T *a, T v, int) { atomic_sync(a, "atomic-rmw"); return __atomic_fetch_and(a, v, __ATOMIC_SEQ_CST); } \
    T __tsan_atomic##N##_fetch_or(volatile T *a, T v, int) { atomic_sync(a, "atomic-rmw"); return __atomic_fetch_or(a, v, __ATOMIC_SEQ_CST); } \
    T __tsan_atomic##N##_fetch_xor(volatile T *a, T v, int) { atomic_sync(a, "atomic-rmw"); return __atomic_fetch_xor(a, v, __ATOMIC_SEQ_CST); } \
    T __tsan_atomic##N##_fetch_nand(volatile T *a, T v, int) { atomic_sync(a, "atomic-rmw"); return __atomic_fetch_nand(a, v, __ATOMIC_SEQ_CST); } \
    int __tsan_atomic##N##_compare_exchange_strong(volatile T *a, T *c, T v, int, int)                                \
    {                                                                                                            \
        atomic_sync(a, "atomic-cas");                                                                            \
        return __atomic_compare_exchange_n(a, c, v, 0, __ATOMIC_SEQ_CST, __ATOMIC_SEQ_CST);                      \
    }                                                                                                            \
    int __tsan_atomic##N##_compare_exchange_weak(volatile T *a, T *c, T v, int, int)                                  \
    {                                                                                                            \
        atomic_sync(a, "atomic-cas");                                                                            \
        return __atomic_compare_exchange_n(a, c, v, 0, __ATOMIC_SEQ_CST, __ATOMIC_SEQ_CST);                      \
    }                                                                                                            \
    T __tsan_atomic##N##_compare_exchange_val(volatile T *a, T c, T v, int, int)                                      \
    {                                                                                                            \
        atomic_sync(a, "atomic-cas");                                                                            \
        __atomic_compare_exchange_n(a, &c, v, 0, __ATOMIC_SEQ_CST, __ATOMIC_SEQ_CST);                            \
        return c;                                                                                                \
    }
    TSAN_ATOMIC(8, uint8_t)
    TSAN_ATOMIC(16, uint16_t)
    TSAN_ATOMIC(32, uint32_t)
    TSAN_ATOMIC(64, uint64_t)
    void __tsan_atomic_thread_fence(int) { static int fence; atomic_sync(&fence, "atomic-fence"); }
    void __tsan_atomic_signal_fence(int) {}
    void __tsan_func_entry(void *) {}
    void __tsan_func_exit() {}
    void __tsan_ignore_thread_begin() {}
    void __tsan_ignore_thread_end() {}
}
