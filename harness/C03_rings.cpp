// C03 — ring buffers under interleaved producer / consumer / DMA tasks (engine E6, DESIGN.md 4.6 / 5 C03).
// Real: igris/datastruct/ring.h, igris/container/ring.h, igris/datastruct/ring_counter.h,
//       igris/container/cyclic_buffer.h, igris/container/unbounded_array.h.  Stub: the tasks, the memory (SimAlloc).
#include "../sim/kit.h"
#include "../sim/simalloc.h"

#include <igris/container/cyclic_buffer.h>
#include <igris/container/ring.h>
#include <igris/datastruct/ring.h>
#include "C03_c_api.h"
#include <igris/datastruct/ring_counter.h>

#include <deque>
#include <memory>

using namespace kit;

namespace
{
    int64_t mathmod(int64_t a, int64_t n) { return mod(a, n); }
    uint8_t data_byte(int64_t v, int k)
    {
        // plan value -> byte stream; 0xFF and 0x00 are weighted (they are where sign/terminator mistakes live)
        int64_t x = v + (int64_t)k * 37;
        int sel = (int)mod(x, 7);
        if (sel == 0) return 0xFF;
        if (sel == 1) return 0x00;
        if (sel == 2) return 0x80;
        return (uint8_t)mod(x * 2654435761ll >> 3, 256);
    }

    // ---------------------------------------------------------------- C ring API: producer / consumer / DMA tasks
    // ops: [0 putc v] [1 getc] [2 write n v] [3 read n] [4 dma_write n v] [5 dma_read n] [6 clean] [7 burst_put n v] [8 burst_get n]
    struct CRingWorld : World
    {
        const char *name() const override { return "c-ring"; }
        unsigned weight(Tier) const override { return 4; }
        Plan generate(Rng &r, Tier tier) override
        {
            Plan p;
            int size = (int)r.range(2, tier == THOROUGH ? 67 : 17);
            // cfg[3]: how the ring head is set up: 0 ring_init(); 1..5 the static initialiser RING_HEAD_INIT with the size written as a
            // plain name, a shift / conditional, an or, a sum, a comparison-free conditional on the other branch
            p.cfg = {size, (int64_t)r.below(4), (int64_t)r.below(2), r.chance(1, 2) ? 0 : (int64_t)r.range(1, 5)};
            int n = (int)r.range(4, tier == THOROUGH ? 200 : 70);
            if (r.chance(1, 40)) n *= 25; // a long history: what only accumulates over hundreds or thousands of operations
            // stalls: phases in which only one side runs, so the ring runs full / empty
            int phase = 0, left = 0;
            for (int i = 0; i < n; i++)
            {
                if (left == 0) { phase = (int)r.below(3); left = (int)r.range(1, 12); }
                left--;
                bool prod = phase == 0 ? r.chance(1, 2) : phase == 1;
                int64_t v = (int64_t)r.below(100000);
                int64_t cnt = r.chance(1, 5) ? (int64_t)r.below(2 * size + 2) : (int64_t)r.below(size + 1);
                if (r.chance(1, 40)) p.ops.push_back({6});
                else if (prod)
                {
                    int k = (int)r.below(4);
                    if (k == 0) p.ops.push_back({0, v});
                    else if (k == 1) p.ops.push_back({2, cnt, v});
                    else if (k == 2) p.ops.push_back({4, cnt, v});
                    else p.ops.push_back({7, cnt, v});
                }
                else
                {
                    int k = (int)r.below(4);
                    if (k == 0) p.ops.push_back({1});
                    else if (k == 1) p.ops.push_back({3, cnt});
                    else if (k == 2) p.ops.push_back({5, cnt});
                    else p.ops.push_back({8, cnt});
                }
            }
            return p;
        }
        std::string describe(const Plan &p) override
        {
            static const char *nm[] = {"putc", "getc", "write", "read", "dma_write", "dma_read", "clean", "burst_put", "burst_get"};
            std::string s = "ring size=" + std::to_string(mod(p.c(0) - 2, 66) + 2) + ":";
            for (auto &o : p.ops)
            {
                s += std::string(" ") + nm[mod(arg(o, 0), 9)];
                if (o.size() > 1) s += "(" + std::to_string(o[1]) + ")";
            }
            return s;
        }
        Result execute(const Plan &p, Trace &tr) override
        {
            Result res;
            unsigned size = (unsigned)mod(p.c(0) - 2, 66) + 2;
            simalloc::st().reset((int)p.c(1), p.c(2) != 0);
            char *buf = (char *)simalloc::raw_alloc(size); // exact-size backing store
            struct Free { char *b; unsigned n; ~Free() { simalloc::st().live.erase(b); ::free(b); } } fr{buf, size};
            unsigned lg = 0;
            while ((1u << (lg + 1)) <= size) lg++;
            const bool pow2 = (1u << lg) == size;
            const unsigned one = 1, zero = 0, half = size / 2, rest = size - size / 2;
            ring_head r_fn;
            if (ring_init(&r_fn, size) != &r_fn) violate("C03/result", "ring_init does not return its ring");
            ring_head r_plain = RING_HEAD_INIT(size);
            ring_head r_shift = RING_HEAD_INIT(pow2 ? one << lg : size);
            ring_head r_or = RING_HEAD_INIT(size | zero);
            ring_head r_sum = RING_HEAD_INIT(half + rest);
            ring_head r_cond = RING_HEAD_INIT(zero ? 2 : size);
            ring_head r;
            switch (mod(p.c(3, 0), 6))
            {
            case 0: r = r_fn; break;
            case 1: r = r_plain; probe("static_initialiser"); break;
            case 2: r = r_shift; probe("static_initialiser"); break;
            case 3: r = r_or; probe("static_initialiser"); break;
            case 4: r = r_sum; probe("static_initialiser"); break;
            default: r = r_cond; probe("static_initialiser"); break;
            }
            std::deque<uint8_t> m;
            size_t capacity = size - 1;
            bool wrapped = false, was_full = false, was_empty_after_data = false;
            uint64_t seqno = 0, stmt_tick = 0;
            auto check = [&](const char *where) {
                if (r.head >= size || r.tail >= size) violate("C03/index-range", "%s: head=%u tail=%u size=%u", where, r.head, r.tail, size);
                if (ring_avail(&r) != m.size()) violate("C03/avail", "%s: ring_avail=%u model=%zu", where, ring_avail(&r), m.size());
                if (ring_room(&r) != capacity - m.size()) violate("C03/room", "%s: ring_room=%u model=%zu", where, ring_room(&r), capacity - m.size());
                if ((ring_empty(&r) != 0) != m.empty()) violate("C03/empty", "%s: ring_empty=%d model=%d", where, ring_empty(&r), (int)m.empty());
                if ((ring_full(&r) != 0) != (m.size() == capacity)) violate("C03/full", "%s: ring_full=%d model size %zu of %zu", where, ring_full(&r), m.size(), capacity);
                size_t k = 0;
                ring_for_each(idx, &r)
                {
                    if (k >= m.size()) violate("C03/for-each", "%s: ring_for_each yields more than %zu elements", where, m.size());
                    if ((uint8_t)buf[idx] != m[k]) violate("C03/content", "%s: element %zu is %02x, model %02x", where, k, (uint8_t)buf[idx], m[k]);
                    k++;
                }
                if (k != m.size()) violate("C03/for-each", "%s: ring_for_each yields %zu elements, model %zu", where, k, m.size());
                {
                    // the same queries and the same walk as expanded by the C compiler
                    if (c03_c_avail(&r) != m.size() || c03_c_room(&r) != capacity - m.size() || (c03_c_empty(&r) != 0) != m.empty() || (c03_c_full(&r) != 0) != (m.size() == capacity))
                        violate("C03/avail", "%s: compiled as C, ring_avail=%u ring_room=%u, model %zu of %zu", where, c03_c_avail(&r), c03_c_room(&r), m.size(), capacity);
                    std::vector<unsigned char> w(m.size() + 2);
                    int nw = c03_c_walk(&r, buf, w.data(), (int)m.size() + 1);
                    if (nw != (int)m.size()) violate("C03/for-each", "%s: compiled as C, ring_for_each yields %d elements, model %zu", where, nw, m.size());
                    for (size_t q = 0; q < m.size(); q++)
                        if (w[q] != m[q]) violate("C03/content", "%s: compiled as C, element %zu of the walk is %02x, model %02x", where, q, w[q], m[q]);
                }
                {
                    // ring_for_each as a statement (if / else without braces, break, continue), in both languages
                    stmt_tick++;
                    int cond = (int)(stmt_tick % 3 != 0);
                    int stop_at = m.empty() || stmt_tick % 4 == 0 ? -1 : (int)((stmt_tick / 4) % m.size());
                    int skip_at = m.empty() || stmt_tick % 5 < 2 ? -1 : (int)((stmt_tick / 5) % m.size());
                    std::vector<unsigned char> got(m.size() + 2), want;
                    int else_ran = -1;
                    int ng = stmt_tick % 2 ? c03_walk_stmt_inline(&r, buf, cond, stop_at, skip_at, got.data(), (int)m.size() + 1, &else_ran)
                                           : c03_c_walk_stmt(&r, buf, cond, stop_at, skip_at, got.data(), (int)m.size() + 1, &else_ran);
                    got.resize((size_t)std::max(ng, 0));
                    if (cond)
                        for (size_t q = 0; q < m.size(); q++)
                        {
                            if ((int)q == skip_at) continue;
                            want.push_back(m[q]);
                            if ((int)q == stop_at) break;
                        }
                    if (else_ran != !cond || got != want)
                        violate("C03/for-each", "%s: ring_for_each as the if-branch of 'if (%d) ... else ...' with break at element %d and continue at element %d: visited %zu elements (expected %zu), else branch ran: %d", where, cond, stop_at, skip_at, got.size(), want.size(), else_ran);
                }
                if (m.size() == capacity) { was_full = true; }
                if (m.empty() && seqno > 0) was_empty_after_data = true;
            };
            check("init");
            for (auto &o : p.ops)
            {
                int kind = (int)mod(arg(o, 0), 9);
                unsigned h0 = r.head, t0 = r.tail;
                switch (kind)
                {
                case 0:
                {
                    uint8_t b = data_byte(arg(o, 1), 0);
                    int rc = (seqno & 1) ? c03_c_putc(&r, buf, (char)b) : ring_putc(&r, buf, (char)b); // (every other call goes through the header as compiled by the C compiler)
                    bool ok = m.size() < capacity;
                    if ((rc != 0) != ok) violate("C03/putc-result", "ring_putc returned %d with %zu of %zu stored", rc, m.size(), capacity);
                    if (ok) { m.push_back(b); seqno++; }
                    else { probe("full_reject"); if (r.head != h0 || r.tail != t0) violate("C03/reject-changed-state", "rejected putc moved an index"); }
                    tr.ev("putc %02x -> %d", b, rc);
                    break;
                }
                case 1:
                {
                    int c = (m.size() & 1) ? c03_c_getc(&r, buf) : ring_getc(&r, buf);
                    if (m.empty())
                    {
                        probe("empty_reject");
                        if (c != -1) violate("C03/getc-empty", "ring_getc on an empty ring returned %d", c);
                        if (r.head != h0 || r.tail != t0) violate("C03/reject-changed-state", "rejected getc moved an index");
                    }
                    else
                    {
                        uint8_t want = m.front();
                        if (want == 0xFF) probe("byte_0xFF_read");
                        if (c == -1) violate("C03/getc-byte-as-empty", "ring_getc returned -1 (\"empty\") for stored byte %02x", want);
                        if ((uint8_t)c != want || c < -128 || c > 255) violate("C03/getc-value", "ring_getc returned %d, stored byte %02x", c, want);
                        m.pop_front();
                    }
                    tr.ev("getc -> %d", c);
                    break;
                }
                case 2:
                case 7:
                {
                    unsigned n = (unsigned)mod(arg(o, 1), 2 * size + 2);
                    std::vector<char> d(n ? n : 1);
                    for (unsigned i = 0; i < n; i++) d[i] = (char)data_byte(arg(o, 2), (int)i);
                    int rc;
                    if (kind == 2) rc = (n & 1) ? c03_c_write(&r, buf, d.data(), n) : ring_write(&r, buf, d.data(), n);
                    else
                    {
                        rc = 0;
                        for (unsigned i = 0; i < n; i++) rc += ring_putc(&r, buf, d[i]);
                    }
                    size_t can = std::min<size_t>(n, capacity - m.size());
                    if ((size_t)rc != can) violate("C03/write-count", "ring_write(%u) returned %d, room was %zu", n, rc, capacity - m.size());
                    if (can < n) fault("consumer_stall_overrun_attempt");
                    for (size_t i = 0; i < can; i++) { m.push_back((uint8_t)d[i]); seqno++; }
                    tr.ev("write %u -> %d", n, rc);
                    break;
                }
                case 3:
                case 8:
                {
                    unsigned n = (unsigned)mod(arg(o, 1), 2 * size + 2);
                    std::vector<char> d(n + 1, (char)0x5a);
                    int rc;
                    size_t can = std::min<size_t>(n, m.size());
                    for (size_t i = 0; i < can; i++)
                        if (m[i] == 0xFF) probe("byte_0xFF_read");
                    if (kind == 3) rc = (n & 1) ? c03_c_read(&r, buf, d.data(), n) : ring_read(&r, buf, d.data(), n);
                    else
                    {
                        rc = 0;
                        for (unsigned i = 0; i < n; i++)
                        {
                            int c = ring_getc(&r, buf);
                            if (c == -1) break;
                            d[rc++] = (char)c;
                        }
                    }
                    if ((size_t)rc != can) violate("C03/read-count", "ring_read(%u) returned %d, %zu bytes were stored (first %s)", n, rc, m.size(), m.empty() ? "-" : (m[0] == 0xFF ? "ff" : "xx"));
                    if (can < n) fault("producer_stall_underrun_attempt");
                    for (size_t i = 0; i < can; i++)
                    {
                        if ((uint8_t)d[i] != m.front()) violate("C03/read-data", "byte %zu read as %02x, written as %02x", i, (uint8_t)d[i], m.front());
                        m.pop_front();
                    }
                    if (d[n] != (char)0x5a) violate("C03/read-overrun", "ring_read wrote past the %u bytes requested", n);
                    tr.ev("read %u -> %d", n, rc);
                    break;
                }
                case 4:
                {
                    // DMA style producer: store at head.. (wrapping by hand), then publish with one bulk head move
                    unsigned n = (unsigned)mod(arg(o, 1), size + 1);
                    n = std::min<unsigned>(n, (unsigned)(capacity - m.size()));
                    unsigned pos = r.head;
                    for (unsigned i = 0; i < n; i++)
                    {
                        uint8_t b = data_byte(arg(o, 2), (int)i);
                        buf[pos] = (char)b;
                        pos = pos + 1 == size ? 0 : pos + 1;
                        m.push_back(b);
                        seqno++;
                    }
                    if (n && r.head + n >= size) probe("bulk_move_across_wrap");
                    if (ring_move_head(&r, n) != &r) violate("C03/result", "ring_move_head does not return its ring");
                    tr.ev("dma_write %u", n);
                    break;
                }
                case 5:
                {
                    unsigned n = (unsigned)mod(arg(o, 1), size + 1);
                    n = std::min<unsigned>(n, (unsigned)m.size());
                    unsigned pos = r.tail;
                    for (unsigned i = 0; i < n; i++)
                    {
                        if ((uint8_t)buf[pos] != m.front()) violate("C03/dma-read-data", "peeked byte %u is %02x, written %02x", i, (uint8_t)buf[pos], m.front());
                        pos = pos + 1 == size ? 0 : pos + 1;
                        m.pop_front();
                    }
                    if (n && r.tail + n >= size) probe("bulk_move_across_wrap");
                    if (ring_move_tail(&r, n) != &r) violate("C03/result", "ring_move_tail does not return its ring");
                    tr.ev("dma_read %u", n);
                    break;
                }
                case 6:
                    ring_clean(&r);
                    m.clear();
                    tr.ev("clean");
                    break;
                }
                if (r.head < h0 || r.tail < t0) { wrapped = true; probe("wrapped"); }
                check("after-op");
            }
            res.nontrivial = wrapped && was_full && was_empty_after_data;
            res.simtime = seqno;
            stat("bytes_through_ring", seqno);
            return res;
        }
    };

    // element whose value/copy constructor throws on demand (fault: a failing constructor while an element is being stored)
    struct FInt
    {
        int v = 0;
        static int throw_after;
        struct Boom {};
        static void maybe() { if (throw_after > 0 && --throw_after == 0) { kit::fault("element_constructor_throws"); throw Boom(); } }
        FInt() {}
        FInt(long long x) { maybe(); v = (int)x; }
        FInt(const FInt &o) { maybe(); v = o.v; }
        FInt &operator=(const FInt &o) = default;
        bool operator==(const FInt &o) const { return v == o.v; }
        bool operator!=(const FInt &o) const { return v != o.v; }
    };
    int FInt::throw_after = 0;
    // an element with a constructor from an initializer list next to its ordinary ones (like the standard containers):
    // emplace(args...) must build T(args...), never T{args...}
    struct ILInt
    {
        int v = 0;
        ILInt() {}
        ILInt(long long x) : v((int)x) {}
        ILInt(long long a, long long b) : v((int)(a * 1000 + b)) {}
        ILInt(std::initializer_list<long long> l) : v(-1000000) { for (long long x : l) v -= (int)x; }
        bool operator==(const ILInt &o) const { return v == o.v; }
        bool operator!=(const ILInt &o) const { return v != o.v; }
    };
    // an element that points into itself (a record with a cursor into its own inline array): trivial destructor, real copy
    // constructor. A stored element whose cursor does not aim at its own array compares unequal to everything.
    struct CursorRec
    {
        int cells[2] = {0, 0};
        const int *cur = cells;
        CursorRec() {}
        CursorRec(long long x) { cells[0] = (int)x; cells[1] = (int)(x >> 8); cur = cells + (x & 1); }
        CursorRec(const CursorRec &o) { cells[0] = o.cells[0]; cells[1] = o.cells[1]; cur = cells + (o.cur - o.cells); }
        CursorRec &operator=(const CursorRec &o) { cells[0] = o.cells[0]; cells[1] = o.cells[1]; cur = cells + (o.cur - o.cells); return *this; }
        bool sane() const { return cur == cells || cur == cells + 1; }
        bool operator==(const CursorRec &o) const { return sane() && o.sane() && cells[0] == o.cells[0] && cells[1] == o.cells[1] && (cur - cells) == (o.cur - o.cells); }
        bool operator!=(const CursorRec &o) const { return !(*this == o); }
    };
    static_assert(std::is_trivially_destructible<CursorRec>::value && !std::is_trivially_copyable<CursorRec>::value, "CursorRec: trivial destructor, real copy");
    // ---------------------------------------------------------------- a ring with more than 65535 slots (C API)
    // blocks of tens of thousands of bytes written, read and moved in bulk across the wrap, against a std::deque
    struct HugeRingWorld : World
    {
        const char *name() const override { return "c-ring-more-than-65535-slots"; }
        unsigned weight(Tier) const override { return 1; }
        Plan generate(Rng &r, Tier) override
        {
            Plan p;
            p.cfg = {r.pick<int64_t>({65536, 65537, 70000, 131072})};
            int n = (int)r.range(3, 7);
            for (int i = 0; i < n; i++) p.ops.push_back({(int64_t)r.below(4), (int64_t)r.range(1, 60000), (int64_t)r.below(256)});
            return p;
        }
        Result execute(const Plan &p, Trace &tr) override
        {
            Result res;
            unsigned size = (unsigned)(65536 + mod(p.c(0) - 65536, 70000));
            std::unique_ptr<char[]> buf(new char[size]);
            ring_head r;
            ring_init(&r, size);
            std::deque<uint8_t> m;
            size_t capacity = size - 1;
            uint64_t seq = 0;
            bool wrapped = false;
            auto check = [&](const char *where) {
                if (r.head >= size || r.tail >= size) violate("C03/index-range", "%s: head=%u tail=%u size=%u", where, r.head, r.tail, size);
                if (ring_avail(&r) != m.size() || ring_room(&r) != capacity - m.size())
                    violate("C03/avail", "%s: a ring of %u slots reports avail=%u room=%u, the reference holds %zu of %zu", where, size, ring_avail(&r), ring_room(&r), m.size(), capacity);
            };
            check("init");
            for (auto &o : p.ops)
            {
                int k = (int)mod(arg(o, 0), 4);
                unsigned n = (unsigned)mod(arg(o, 1) - 1, 60000) + 1;
                unsigned h0 = r.head;
                if (k == 0 || k == 2)
                {
                    std::vector<char> d(n);
                    for (unsigned i = 0; i < n; i++) d[i] = (char)data_byte(arg(o, 2), (int)(seq + i));
                    size_t can = std::min<size_t>(n, capacity - m.size());
                    if (k == 0)
                    {
                        int rc = ring_write(&r, buf.get(), d.data(), n);
                        if ((size_t)rc != can) violate("C03/write-count", "ring_write(%u) into a ring of %u slots returned %d, room was %zu", n, size, rc, can);
                    }
                    else
                    {
                        // external producer: stores the block itself (across the end of the storage), then one bulk head move
                        for (size_t i = 0; i < can; i++) buf[(r.head + i) % size] = d[i];
                        ring_move_head(&r, (unsigned)can);
                    }
                    for (size_t i = 0; i < can; i++) m.push_back((uint8_t)d[i]);
                    seq += n;
                }
                else
                {
                    std::vector<char> d(n + 1, 0x5a);
                    size_t can = std::min<size_t>(n, m.size());
                    if (k == 1)
                    {
                        int rc = ring_read(&r, buf.get(), d.data(), n);
                        if ((size_t)rc != can) violate("C03/read-count", "ring_read(%u) from a ring of %u slots returned %d, %zu bytes were stored", n, size, rc, m.size());
                        for (size_t i = 0; i < can; i++)
                        {
                            if ((uint8_t)d[i] != m.front()) violate("C03/read-data", "byte %zu read from a ring of %u slots is %02x, written was %02x", i, size, (uint8_t)d[i], m.front());
                            m.pop_front();
                        }
                    }
                    else
                    {
                        for (size_t i = 0; i < can; i++)
                        {
                            if ((uint8_t)buf[(r.tail + i) % size] != m.front()) violate("C03/read-data", "byte %zu in place in a ring of %u slots differs from what was written", i, size);
                            m.pop_front();
                        }
                        ring_move_tail(&r, (unsigned)can);
                    }
                }
                if (r.head < h0) wrapped = true;
                tr.ev("op %d n=%u -> %zu", k, n, m.size());
                check("after-op");
            }
            probe("ring_over_65535_slots");
            res.nontrivial = wrapped;
            res.simtime = seq;
            return res;
        }
    };

    // ---------------------------------------------------------------- igris::ring<T, Alloc>
    // ops: [0 push v] [1 emplace v] [2 pop] [3 write n v] [4 read n] [5 get_last offset count order] [6 fixup idx]
    //      [7 distance a b] [8 resize n] [9 reset] [10 clear] [11 last/tail/head queries] [12 external producer k v: fills k slots, set_last_index]
    static inline bool r_same_cap(int64_t a, int cap) { return (int)kit::mod(a - 1, 66) + 1 == cap; }
    template <class T> struct TypedRingWorld : World
    {
        bool bytes; // T == char: read/write available
        const char *nm;
        TypedRingWorld(bool b, const char *nm) : bytes(b), nm(nm) {}
        const char *name() const override { return nm; }
        unsigned weight(Tier) const override { return 2; }
        Plan generate(Rng &r, Tier tier) override
        {
            Plan p;
            int cap = (int)r.range(1, tier == THOROUGH ? 40 : 16);
            p.cfg = {cap, (int64_t)r.below(4), (int64_t)r.below(2)};
            int n = (int)r.range(4, tier == THOROUGH ? 160 : 60);
            if (r.chance(1, 40)) n *= 25; // a long history: what only accumulates over hundreds or thousands of operations
            int phase = 0, left = 0;
            for (int i = 0; i < n; i++)
            {
                if (left == 0) { phase = (int)r.below(3); left = (int)r.range(1, 10); }
                left--;
                int64_t v = (int64_t)r.below(100000);
                unsigned k = (unsigned)r.below(100);
                bool prod = phase == 0 ? r.chance(1, 2) : phase == 1;
                if (k < 50)
                {
                    if (prod) p.ops.push_back(r.chance(1, 3) ? Op{1, v} : (bytes && r.chance(1, 3) ? Op{3, (int64_t)r.below(cap + 3), v} : Op{0, v}));
                    else p.ops.push_back(bytes && r.chance(1, 3) ? Op{4, (int64_t)r.below(cap + 3)} : Op{2});
                }
                else if (k < 65) p.ops.push_back({5, (int64_t)r.below(cap + 1), (int64_t)r.below(cap + 1), (int64_t)r.below(2)});
                else if (k < 78) p.ops.push_back({6, r.range(-3 * (cap + 1), 3 * (cap + 1))});
                else if (k < 86) p.ops.push_back({7, (int64_t)r.below(cap + 1), (int64_t)r.below(cap + 1)});
                else if (k < 89) p.ops.push_back({8, r.chance(1, 3) ? (int64_t)cap : r.range(1, tier == THOROUGH ? 40 : 16)});
                else if (k < 91) p.ops.push_back({9});
                else if (k < 93) p.ops.push_back({10});
                else if (k < 97) p.ops.push_back({11, (int64_t)r.below(1000)});
                else if (k < 99) p.ops.push_back({12, r.chance(1, 2) ? (int64_t)cap + 1 : (int64_t)r.below(cap + 2), v});
                else p.ops.push_back({r.chance(1, 2) ? 13 : 14, v});
            }
            return p;
        }
        Result execute(const Plan &p, Trace &tr) override
        {
            Result res;
            simalloc::st().reset((int)p.c(1), p.c(2) != 0);
            int cap = (int)mod(p.c(0) - 1, 66) + 1;
            bool wrapped = false, was_full = false;
            uint64_t pushed = 0;
            {
                igris::ring<T, simalloc::Alloc<T>> rg(cap);
                std::deque<T> m;
                std::deque<T> hist; // everything ever stored since the last resize/reset, newest at the back (for get_last)
                auto val = [&](int64_t v, int k) -> T { return bytes ? (T)(char)data_byte(v, k) : (T)(v * 31 + k); };
                auto check = [&](const char *where) {
                    unsigned size = rg.size();
                    // capacity as the property states it: fill and free counts sum to it (checked below through avail/room);
                    // the index modulus must not exceed the backing store
                    if (rg.avail() + rg.room() != (unsigned)cap) violate("C03/typed-size", "%s: avail()+room() = %u, the ring was made for %d elements", where, rg.avail() + rg.room(), cap);
                    if (rg.buffer.size() < size) violate("C03/typed-backing-store", "%s: ring of size %u over a buffer of %zu elements", where, size, rg.buffer.size());
                    if ((unsigned)rg.head_index() >= size || (unsigned)rg.tail_index() >= size)
                        violate("C03/index-range", "%s: head=%d tail=%d size=%u", where, rg.head_index(), rg.tail_index(), size);
                    if (rg.avail() != m.size()) violate("C03/avail", "%s: avail=%u model=%zu", where, rg.avail(), m.size());
                    if (rg.room() != (unsigned)cap - m.size()) violate("C03/room", "%s: room=%u model=%zu", where, rg.room(), (size_t)cap - m.size());
                    if (rg.empty() != m.empty()) violate("C03/empty", "%s: empty=%d model=%d", where, (int)rg.empty(), (int)m.empty());
                    if (!m.empty())
                    {
                        if (rg.tail() != m.front()) violate("C03/tail", "%s: tail() differs from the oldest element", where);
                        if (rg.last() != m.back())
                            violate("C03/last", "%s: last() addresses the wrong element (head=%d size=%u)", where, rg.head_index(), size);
                        if (rg.index_of(&rg.tail()) != rg.tail_index()) violate("C03/index_of", "%s: index_of(&tail()) != tail_index()", where);
                    }
                    if (m.size() == (size_t)cap) was_full = true;
                };
                check("init");
                for (auto &o : p.ops)
                {
                    int kind = (int)mod(arg(o, 0), 15);
                    int h0 = rg.head_index(), t0 = rg.tail_index();
                    switch (kind)
                    {
                    case 0:
                    case 1:
                        if (m.size() < (size_t)cap) // push on a full typed ring is caller misuse (no reject path in that API)
                        {
                            T v = val(arg(o, 1), 0);
                            bool thrown = false;
                            if constexpr (std::is_same<T, FInt>::value)
                            {
                                // fault: the element's constructor throws while it is stored - the ring must be unchanged
                                if (mod(arg(o, 1), 5) == 0) FInt::throw_after = 1;
                                try
                                {
                                    if (kind == 0) rg.push(v);
                                    else rg.emplace(v);
                                }
                                catch (const FInt::Boom &)
                                {
                                    thrown = true;
                                    probe("store_with_throwing_constructor");
                                    // the failed construction may have scribbled over the head slot, which physically still held
                                    // the (cap+1)-th newest, already consumed element: forget that one
                                    while (hist.size() > (size_t)cap) hist.pop_front();
                                }
                                FInt::throw_after = 0;
                            }
                            else if constexpr (std::is_same<T, ILInt>::value)
                            {
                                long long a = (long long)mod(arg(o, 1), 97), b = (long long)mod(arg(o, 1), 89);
                                if (kind == 0) rg.push(v);
                                else if (a & 1) { rg.emplace(a, b); v = ILInt(a, b); probe("emplace_with_two_constructor_arguments"); }
                                else { rg.emplace(a); v = ILInt(a); }
                            }
                            else
                            {
                                if (kind == 0) rg.push(v);
                                else rg.emplace(v);
                            }
                            if (!thrown)
                            {
                                m.push_back(v);
                                hist.push_back(v);
                                pushed++;
                            }
                            tr.ev("push%s", thrown ? " (constructor threw)" : "");
                        }
                        break;
                    case 2:
                        if (!m.empty())
                        {
                            rg.pop();
                            m.pop_front();
                            tr.ev("pop");
                        }
                        break;
                    case 3:
                        if constexpr (sizeof(T) == 1)
                        {
                            size_t n = (size_t)mod(arg(o, 1), cap + 3);
                            std::vector<T> d(n ? n : 1);
                            for (size_t i = 0; i < n; i++) d[i] = val(arg(o, 2), (int)i);
                            size_t rc = rg.write(d.data(), n);
                            size_t can = std::min<size_t>(n, (size_t)cap - m.size());
                            if (rc != can) violate("C03/write-count", "ring::write(%zu) returned %zu, room was %zu", n, rc, (size_t)cap - m.size());
                            if (can < n) probe("full_reject");
                            for (size_t i = 0; i < can; i++) { m.push_back(d[i]); hist.push_back(d[i]); pushed++; }
                            tr.ev("write %zu", n);
                        }
                        break;
                    case 4:
                        if constexpr (sizeof(T) == 1)
                        {
                            size_t n = (size_t)mod(arg(o, 1), cap + 3);
                            std::vector<T> d(n + 1, (T)0x5a);
                            size_t can = std::min<size_t>(n, m.size());
                            for (size_t i = 0; i < can; i++)
                                if ((uint8_t)m[i] == 0xFF) probe("byte_0xFF_read");
                            size_t rc = rg.read(d.data(), n);
                            if (rc != can) violate("C03/read-count", "ring::read(%zu) returned %zu, %zu elements were stored", n, rc, m.size());
                            if (can < n) probe("empty_reject");
                            for (size_t i = 0; i < can; i++)
                            {
                                if (d[i] != m.front()) violate("C03/read-data", "element %zu read back wrong", i);
                                m.pop_front();
                            }
                            tr.ev("read %zu", n);
                        }
                        break;
                    case 5:
                    {
                        // get_last(offset, count, order): the `count` elements that end `offset` before the newest one
                        size_t have = std::min<size_t>(hist.size(), (size_t)cap + 1); // still physically in the buffer
                        if (have == 0) break;
                        int offset = (int)mod(arg(o, 1), (int64_t)have);
                        int count = (int)mod(arg(o, 2), (int64_t)have - offset + 1);
                        bool from_end = mod(arg(o, 3), 2) != 0;
                        std::vector<T> got = rg.get_last(offset, count, from_end);
                        if ((int)got.size() != count) violate("C03/get_last-size", "get_last returned %zu elements, asked %d", got.size(), count);
                        for (int i = 0; i < count; i++)
                        {
                            size_t back = from_end ? (size_t)(offset + i) : (size_t)(offset + count - 1 - i);
                            T want = hist[hist.size() - 1 - back];
                            if (got[i] != want)
                                violate("C03/get_last", "get_last(offset=%d,count=%d,from_end=%d)[%d] addresses the wrong element (head=%d size=%u)", offset, count,
                                        (int)from_end, i, rg.head_index(), rg.size());
                        }
                        if (rg.head_index() - offset - count < 0) probe("get_last_across_wrap");
                        tr.ev("get_last %d %d", offset, count);
                        break;
                    }
                    case 6:
                    {
                        int size = (int)rg.size();
                        int idx = (int)(arg(o, 1) % (4 * size));
                        int got = rg.fixup_index(idx);
                        if (idx < 0) probe("negative_fixup");
                        if (got != (int)mathmod(idx, size)) violate("C03/fixup_index", "fixup_index(%d) = %d on a ring of size %d, expected %d", idx, got, size, (int)mathmod(idx, size));
                        break;
                    }
                    case 7:
                    {
                        int size = (int)rg.size();
                        int a = (int)mod(arg(o, 1), size), b = (int)mod(arg(o, 2), size);
                        int got = rg.distance(a, b);
                        if (got != (int)mathmod(a - b, size)) violate("C03/distance", "distance(%d,%d) = %d on a ring of size %d", a, b, got, size);
                        break;
                    }
                    case 8:
                    {
                        // elements live in the ring die with the old buffer: a caller holding elements with a throwing / counted
                        // constructor drains first; plain samples may simply be dropped by the resize (every other time)
                        if (std::is_same<T, FInt>::value || mod(arg(o, 1), 2) == 0)
                            while (!m.empty()) { rg.pop(); m.pop_front(); }
                        else if (!m.empty()) probe("resize_of_non_empty_ring");
                        m.clear();
                        if (r_same_cap(arg(o, 1), cap)) probe("resize_to_same_capacity");
                        cap = (int)mod(arg(o, 1) - 1, 66) + 1;
                        rg.resize((size_t)cap);
                        hist.clear();
                        tr.ev("resize %d", cap);
                        probe("resize");
                        break;
                    }
                    case 9:
                        rg.reset();
                        m.clear();
                        hist.clear();

                        tr.ev("reset");
                        break;
                    case 10:
                        rg.clear();
                        m.clear();
                        tr.ev("clear");
                        break;
                    case 11:
                        // DMA style on the typed ring: construct at head_place() and publish with move_head_one(); consume
                        // by reading tail() and move_tail_one(); get(index) addresses the raw slot
                        if (mod(arg(o, 1), 2) == 0)
                        {
                            if (m.size() < (size_t)cap)
                            {
                                T v = val(arg(o, 1), 3);
                                int hi = rg.head_index();
                                rg.head_place() = v;
                                if (rg.get(hi) != v) violate("C03/get", "get(head_index) does not address head_place()");
                                // the producer looks at the prepared slot again before it publishes it (a second field, a checksum):
                                // the accessor addresses the slot, it does not change it
                                if (rg.head_place() != v || rg.head_place() != v) violate("C03/head_place", "head_place() called again for the same slot no longer yields what was stored there");
                                if (&rg.head_place() != &rg.get(hi)) violate("C03/head_place", "two calls of head_place() address different slots");
                                rg.move_head_one();
                                m.push_back(v);
                                hist.push_back(v);
                                pushed++;
                                probe("typed_dma_push");
                            }
                        }
                        else if (!m.empty())
                        {
                            if (rg.tail() != m.front() || rg.get(rg.tail_index()) != m.front()) violate("C03/tail", "tail()/get(tail_index) differ from the oldest element");
                            rg.move_tail_one();
                            m.pop_front();
                        }
                        break;
                    case 13:
                    {
                        // a copy of the ring is a ring of its own: changing an element of the source does not change the copy, and the
                        // copy drains to the same sequence. (Only elements without resources: igris::ring constructs over its
                        // default-constructed slots and destroys popped slots again when it dies, so an element that owns memory is
                        // double-freed on the unchanged tree too - element lifetimes are outside C03.)
                        igris::ring<T, simalloc::Alloc<T>> c(rg);
                        std::deque<T> want = m;
                        if (!m.empty())
                        {
                            T nv = val(arg(o, 1), 9);
                            rg.tail() = nv;
                            if (hist.size() >= m.size()) hist[hist.size() - m.size()] = nv; // the same slot seen through the history accessors
                            m.front() = nv;
                        }
                        if (c.avail() != want.size()) violate("C03/copy", "a copy of a ring holding %zu elements reports %u", want.size(), c.avail());
                        for (size_t q = 0; q < want.size(); q++)
                        {
                            if (c.tail() != want[q]) violate("C03/copy", "element %zu read from a copy of the ring differs from what was written (it follows a later change of the source)", q);
                            c.pop();
                        }
                        probe("ring_copied");
                        tr.ev("copy %zu", want.size());
                        {
                            // a ring handed over by move: the new owner keeps the elements after the moved-from object has died (and
                            // after another block of the same size has been allocated, as any program does)
                            want = m;
                            auto *src = new igris::ring<T, simalloc::Alloc<T>>(rg);
                            igris::ring<T, simalloc::Alloc<T>> moved(std::move(*src));
                            delete src;
                            igris::unbounded_array<T, simalloc::Alloc<T>> other((size_t)cap + 1);
                            for (size_t q = 0; q < other.size(); q++) other[q] = val(777, (int)q);
                            if (moved.avail() != want.size()) violate("C03/move", "a ring move-constructed from a ring holding %zu elements reports %u", want.size(), moved.avail());
                            for (size_t q = 0; q < want.size(); q++)
                            {
                                if (moved.tail() != want[q]) violate("C03/move", "element %zu read from a move-constructed ring (source destroyed) differs from what was written", q);
                                moved.pop();
                            }
                            probe("ring_moved");
                        }
                        break;
                    }
                    case 14:
                    {
                        // assignment between two rings of the same capacity: the target takes over the source's elements (all of them,
                        // whatever it held before). Both rings use the default allocator: the unchanged assignment does not release
                        // the target's old block, and memory balance is outside C03.
                        if constexpr (!std::is_same<T, FInt>::value)
                        {
                            igris::ring<T> a(cap), b(cap);
                            int rot = (int)mod(arg(o, 1), cap + 1);
                            for (int q = 0; q < rot; q++) { a.push(val(q, 1)); a.pop(); } // move the source's window round the storage
                            for (auto &e : m) a.push(e);
                            for (int q = 0; q < cap; q++) b.push(val(1000 + q, 2));
                            b = a;
                            if (b.avail() != m.size()) violate("C03/assign", "a ring assigned from a ring holding %zu elements reports %u", m.size(), b.avail());
                            for (size_t q = 0; q < m.size(); q++)
                            {
                                if (b.tail() != m[q]) violate("C03/assign", "element %zu read from a ring assigned from another differs from what was written to the source", q);
                                b.pop();
                            }
                            probe("ring_assigned");
                        }
                        break;
                    }
                    case 12:
                    {
                        // external (DMA style) producer: fills up to k free slots from the head on, wrapping at the end of the
                        // storage, then reports the index of the last slot it wrote with set_last_index()
                        size_t room = (size_t)cap - m.size();
                        size_t k = std::min<size_t>((size_t)mod(arg(o, 1), cap + 2), room);
                        if (k == 0) break;
                        int size = (int)rg.size();
                        int idx = rg.head_index();
                        int last = idx;
                        for (size_t i = 0; i < k; i++)
                        {
                            T v = val(arg(o, 2), 5 + (int)i);
                            rg.get(idx) = v;
                            m.push_back(v);
                            hist.push_back(v);
                            pushed++;
                            last = idx;
                            idx = idx + 1 == size ? 0 : idx + 1;
                        }
                        rg.set_last_index(last);
                        if (last == size - 1) probe("set_last_index_on_last_slot");
                        tr.ev("external producer %zu last=%d", k, last);
                        break;
                    }
                    }
                    if (rg.head_index() < h0 || rg.tail_index() < t0) { wrapped = true; probe("wrapped"); }
                    check("after-op");
                }
            }
            if (simalloc::live_blocks() != 0) violate("C03/typed-ring-leak", "%zu backing blocks still allocated after the ring was destroyed", simalloc::live_blocks());
            res.nontrivial = wrapped && was_full;
            res.simtime = pushed;
            stat("elements_through_ring", pushed);
            return res;
        }
    };

    // ---------------------------------------------------------------- cyclic_buffer + ring_counter
    // ops: [0 push v] [1 index i] [2 counter_inc a] [3 counter_set v] [4 prev i] [5 last no] [6 fixup_pos p] [7 resize n]
    // ---------------------------------------------------------------- typed ring as a message queue of elements that own memory
    // The queue has static lifetime (it is never destroyed - igris::ring destroys popped slots again when it dies, so only a
    // ring that lives for the whole program can hold such elements): push / emplace at the head, tail() + pop() at the tail,
    // for many laps. ASan watches the elements' heap blocks.
    struct StringQueueWorld : World
    {
        const char *name() const override { return "typed-ring-of-strings-static-lifetime"; }
        unsigned weight(Tier) const override { return 1; }
        Plan generate(Rng &r, Tier tier) override
        {
            Plan p;
            int cap = (int)r.range(1, 9);
            p.cfg = {cap};
            int n = (int)r.range(6, tier == THOROUGH ? 120 : 50);
            if (r.chance(1, 40)) n *= 25; // a long history: what only accumulates over hundreds or thousands of operations
            int phase = 0, left = 0;
            for (int i = 0; i < n; i++)
            {
                if (left == 0) { phase = (int)r.below(3); left = (int)r.range(1, 8); }
                left--;
                bool prod = phase == 0 ? r.chance(1, 2) : phase == 1;
                if (r.chance(1, 25)) p.ops.push_back({3});
                else if (prod) p.ops.push_back({r.chance(1, 2) ? 0 : 1, (int64_t)r.below(100000)});
                else p.ops.push_back({2});
            }
            return p;
        }
        std::string describe(const Plan &p) override { return "queue of strings, capacity " + std::to_string(mod(p.c(0) - 1, 9) + 1) + ", " + std::to_string(p.ops.size()) + " ops"; }
        static std::string message(int64_t v)
        {
            std::string s = "message #" + std::to_string(v) + " ";
            s.append((size_t)(v % 3 == 0 ? 2 : 24 + (v * 7) % 40), (char)('a' + v % 26)); // short (in-object) and long (heap) strings
            return s;
        }
        Result execute(const Plan &p, Trace &tr) override
        {
            Result res;
            int cap = (int)mod(p.c(0) - 1, 9) + 1;
            auto *q = new igris::ring<std::string>(cap); // static lifetime: never destroyed
            std::deque<std::string> m;
            uint64_t pushed = 0;
            auto check = [&](const char *where) {
                if (q->avail() != m.size() || q->room() != (unsigned)cap - m.size() || q->empty() != m.empty())
                    violate("C03/avail", "%s: queue of strings reports avail=%u room=%u, the reference holds %zu of %d", where, q->avail(), q->room(), m.size(), cap);
                if ((unsigned)q->head_index() >= q->size() || (unsigned)q->tail_index() >= q->size()) violate("C03/index-range", "%s: head=%d tail=%d size=%u", where, q->head_index(), q->tail_index(), q->size());
                int idx = q->tail_index();
                for (auto &e : m)
                {
                    if (q->get(idx) != e) violate("C03/typed-content", "%s: a queued string differs from what was pushed: '%s' instead of '%s'", where, q->get(idx).c_str(), e.c_str());
                    idx = q->fixup_index(idx + 1);
                }
                if (!m.empty() && (q->tail() != m.front() || q->last() != m.back())) violate("C03/tail", "%s: tail()/last() differ from the oldest/newest string", where);
            };
            for (auto &o : p.ops)
            {
                int kind = (int)mod(arg(o, 0), 4);
                if (kind <= 1)
                {
                    if (m.size() == (size_t)cap) { fault("consumer_stall_overrun_attempt"); continue; }
                    std::string v = message(arg(o, 1));
                    if (kind == 0) q->push(v);
                    else q->emplace(v.c_str());
                    m.push_back(v);
                    pushed++;
                    tr.u(v.size());
                }
                else if (kind == 2)
                {
                    if (m.empty()) { fault("producer_stall_underrun_attempt"); continue; }
                    if (q->tail() != m.front()) violate("C03/fifo", "the string at the tail is '%s', the oldest pushed one is '%s'", q->tail().c_str(), m.front().c_str());
                    q->pop();
                    m.pop_front();
                    tr.u(0);
                }
                else
                {
                    q->clear();
                    m.clear();
                }
                check("after op");
            }
            q->clear(); // the strings still queued are released; the queue object itself stays (static lifetime)
            if (pushed > (uint64_t)cap + 1) probe("string_queue_lapped");
            res.steps = p.ops.size();
            res.simtime = p.ops.size();
            res.nontrivial = pushed > (uint64_t)cap + 1;
            return res;
        }
    };

    struct CyclicWorld : World
    {
        const char *name() const override { return "cyclic_buffer+ring_counter"; }
        unsigned weight(Tier) const override { return 2; }
        Plan generate(Rng &r, Tier tier) override
        {
            Plan p;
            int size = (int)r.range(1, tier == THOROUGH ? 40 : 13);
            p.cfg = {size, (int64_t)r.below(4), (int64_t)r.below(2)};
            int n = (int)r.range(4, tier == THOROUGH ? 150 : 60);
            if (r.chance(1, 40)) n *= 25; // a long history: what only accumulates over hundreds or thousands of operations
            for (int i = 0; i < n; i++)
            {
                unsigned k = (unsigned)r.below(100);
                if (k < 40) p.ops.push_back({0, (int64_t)r.below(100000)});
                else if (k < 60) p.ops.push_back({1, (int64_t)r.below(size)});
                else if (k < 68) p.ops.push_back({2, (int64_t)r.below(3 * size + 1)});
                else if (k < 74) p.ops.push_back({3, (int64_t)r.below(3 * size + 1)});
                else if (k < 83) p.ops.push_back({4, (int64_t)r.below(3 * size + 1)});
                else if (k < 91) p.ops.push_back({5, r.range(-2 * size, 3 * size)});
                else if (k < 98) p.ops.push_back({6, r.range(-3 * size, 3 * size)});
                else if (r.chance(1, 2)) p.ops.push_back({7, r.range(1, 13)});
                else p.ops.push_back({8, (int64_t)r.below(100000)});
            }
            return p;
        }
        Result execute(const Plan &p, Trace &tr) override
        {
            Result res;
            simalloc::st().reset((int)p.c(1), p.c(2) != 0);
            int size = (int)mod(p.c(0) - 1, 66) + 1;
            bool wrapped = false;
            {
                igris::cyclic_buffer<int, simalloc::Alloc<int>> cb((size_t)size);
                std::deque<int> hist; // pushes since construction / resize, newest at the back
                bool fresh = true;    // constructed (value-initialised) storage, not resized
                ring_counter rc;
                ring_counter_init(&rc, size);
                int64_t mc = 0;
                for (auto &o : p.ops)
                {
                    int kind = (int)mod(arg(o, 0), 9);
                    switch (kind)
                    {
                    case 8:
                    {
                        // a snapshot (copy) of the window: it looks back at the same samples, evicts the same one on its next push,
                        // and the original goes on unaffected
                        igris::cyclic_buffer<int, simalloc::Alloc<int>> snap(cb);
                        size_t have = std::min<size_t>(hist.size(), (size_t)size);
                        if (fresh && snap.size() != have) violate("C03/cyclic-copy", "a copy taken after %zu pushes into %d slots reports size %zu", hist.size(), size, snap.size());
                        for (size_t i = 0; i < have; i++)
                            if (snap[(int)i] != hist[hist.size() - 1 - i]) violate("C03/cyclic-copy", "copy[%zu] = %d, the %zu-th previous sample is %d (%zu pushes into %d slots)", i, snap[(int)i], i, hist[hist.size() - 1 - i], hist.size(), size);
                        int ev = snap.push((int)arg(o, 1));
                        if (hist.size() >= (size_t)size && ev != hist[hist.size() - size]) violate("C03/cyclic-copy", "a push into the copy evicted %d, the oldest sample was %d", ev, hist[hist.size() - size]);
                        if (snap[0] != (int)arg(o, 1)) violate("C03/cyclic-copy", "the copy's newest sample is %d after push(%d)", snap[0], (int)arg(o, 1));
                        for (size_t i = 0; i < have; i++)
                            if (cb[(int)i] != hist[hist.size() - 1 - i]) violate("C03/cyclic-copy", "the original's [%zu] changed when its copy was pushed to", i);
                        probe("window_snapshot");
                        break;
                    }
                    case 0:
                    {
                        int v = (int)arg(o, 1);
                        int old = cb.push(v);
                        // push returns the sample it overwrites: the one `size` pushes ago
                        if (hist.size() >= (size_t)size)
                        {
                            if (old != hist[hist.size() - size]) violate("C03/cyclic-push-return", "push returned %d, the overwritten sample was %d", old, hist[hist.size() - size]);
                            wrapped = true;
                            probe("wrapped");
                        }
                        else if (fresh && old != 0) violate("C03/cyclic-push-return", "push over a never-written slot returned %d", old);
                        hist.push_back(v);
                        size_t want = std::min<size_t>(hist.size(), (size_t)size);
                        if (fresh && cb.size() != want) violate("C03/cyclic-size", "size()=%zu after %zu pushes into %d slots", cb.size(), hist.size(), size);
                        tr.ev("push");
                        break;
                    }
                    case 1:
                    {
                        int i = (int)mod(arg(o, 1), size);
                        if ((size_t)i < hist.size())
                        {
                            int got = cb[i];
                            if (got != hist[hist.size() - 1 - i]) violate("C03/cyclic-index", "operator[](%d) = %d, the %d-th previous sample is %d (size %d)", i, got, i, hist[hist.size() - 1 - i], size);
                            const auto &ccb = cb;
                            if (ccb[i] != got) violate("C03/cyclic-index", "const operator[] differs");
                        }
                        else if (fresh && cb[i] != 0) violate("C03/cyclic-index", "operator[](%d) of a never-written slot is %d", i, cb[i]);
                        break;
                    }
                    case 2:
                    {
                        int a = (int)mod(arg(o, 1), 3 * size + 1);
                        ring_counter_increment(&rc, a);
                        mc = mathmod(mc + a, size);
                        break;
                    }
                    case 3:
                    {
                        int v = (int)mod(arg(o, 1), 3 * size + 1);
                        ring_counter_set(&rc, v);
                        mc = mathmod(v, size);
                        break;
                    }
                    case 4:
                    {
                        int i = (int)mod(arg(o, 1), 3 * size + 1);
                        int got = ring_counter_prev(&rc, i);
                        if (got != (int)mathmod(mc - i, size)) violate("C03/ring_counter_prev", "prev(%d) = %d at counter %d size %d", i, got, (int)mc, size);
                        break;
                    }
                    case 5:
                    {
                        int no = (int)(arg(o, 1) % (3 * size + 1));
                        int got = ring_counter_last(&rc, no);
                        if (got != (int)mathmod(mc - no, size)) violate("C03/ring_counter_last", "last(%d) = %d at counter %d size %d", no, got, (int)mc, size);
                        break;
                    }
                    case 6:
                    {
                        int pos = (int)(arg(o, 1) % (3 * size + 1));
                        int got = ring_counter_fixup_pos(&rc, pos);
                        if (pos < 0) probe("negative_fixup");
                        if (got != (int)mathmod(pos, size)) violate("C03/ring_counter_fixup_pos", "fixup_pos(%d) = %d size %d", pos, got, size);
                        break;
                    }
                    case 7:
                    {
                        size = (int)mod(arg(o, 1) - 1, 66) + 1;
                        cb.resize((size_t)size);
                        hist.clear();
                        fresh = false;
                        ring_counter_init(&rc, size);
                        mc = 0;
                        probe("resize");
                        tr.ev("resize %d", size);
                        break;
                    }
                    }
                    if (ring_counter_get(&rc) != (int)mc) violate("C03/ring_counter", "counter %d, model %d (size %d)", ring_counter_get(&rc), (int)mc, size);
                    if (cb.counter.counter < 0 || cb.counter.counter >= size) violate("C03/index-range", "cyclic_buffer counter %d outside [0,%d)", cb.counter.counter, size);
                }
            }
            if (simalloc::live_blocks() != 0) violate("C03/cyclic-leak", "%zu backing blocks still allocated", simalloc::live_blocks());
            res.nontrivial = wrapped;
            return res;
        }
    };
}

int main(int argc, char **argv)
{
    CRingWorld cw;
    TypedRingWorld<char> tc(true, "igris::ring<char>");
    TypedRingWorld<int> ti(false, "igris::ring<int>");
    TypedRingWorld<FInt> tf(false, "igris::ring<throwing element>");
    TypedRingWorld<ILInt> til(false, "igris::ring<element with an initializer-list constructor>");
    TypedRingWorld<CursorRec> tcr(false, "igris::ring<element pointing into itself>");
    CyclicWorld cy;
    Harness h;
    h.property = "C03";
    HugeRingWorld hw;
    static StringQueueWorld sq;
    h.worlds = {&cw, &tc, &ti, &cy, &tf, &hw, &sq, &til, &tcr};
    h.real = {"igris/datastruct/ring.h", "igris/container/ring.h", "igris/datastruct/ring_counter.h", "igris/container/cyclic_buffer.h",
              "igris/container/unbounded_array.h"};
    h.stub = {"producer / consumer / DMA tasks with stalls (op-level interleaving from the plan)", "SimAlloc memory behind the Alloc parameter and the C ring's buffer",
              "std::deque reference queue"};
    return harness_main(h, argc, argv);
}
KIT_ASAN_OPTIONS()
