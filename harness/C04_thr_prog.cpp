// C04 threads part: program-under-test TU (TSan-instrumented like gstuff.cpp / gstuff.c): the only TU including igris headers.
#include <igris/protocols/gstuff.h>
extern "C"
{
#include <igris/protocols/gstuff_v1/gstuff.h>
    // variant: 0 configurable/v1 alphabet, 1 configurable/v0 alphabet, 2 legacy C ; enc: 0 pointer, 1 iovec (two pieces)
    int c04_encode(int variant, int enc, char *payload, unsigned long n, char *out)
    {
        if (variant == 2) return gstuffing_v1(payload, (int)n, out);
        gstuff_context ctx = variant == 1 ? gstuff_context_v0() : gstuff_context();
        if (enc == 0) return gstuffing(payload, n, out, ctx);
        struct iovec v[2];
        v[0].iov_base = payload;
        v[0].iov_len = n / 2;
        v[1].iov_base = payload + n / 2;
        v[1].iov_len = n - n / 2;
        return gstuffing_v(v, 2, out, ctx);
    }
}
