// C04 / C05 — gstuff framing over a simulated byte link (engine E3, DESIGN.md 4.3 / 5 C04-C05 / 11 A.2).
// Built twice: -DLINK_FAULTS=0 -> C04 (the channel delivers every byte unchanged), -DLINK_FAULTS=1 -> C05
// (the channel drops, flips, replaces, inserts, duplicates, truncates, restarts the receiver, sends noise).
// Real: igris/protocols/gstuff.cpp (encoders + configurable receiver, both alphabets), gstuff_v1/gstuff.c,
//       gstuff_v1/autorecv.c, igris/datastruct/sline.h, igris/util/crc.h.   Stub: the channel.
#include "../sim/kit.h"
#include <string_view>

#include <igris/protocols/gstuff.h>
extern "C"
{
#include <igris/protocols/gstuff_v1/autorecv.h>
}
// (the legacy header redefines the *_V1 marker macros to the v0 values; this TU only uses the alphabets below)

#include <memory>
#include <pthread.h>

#ifndef LINK_FAULTS
#define LINK_FAULTS 0
#endif

using namespace kit;
typedef std::vector<uint8_t> Bytes;
// C04_gateway.cpp: the same library seen from a translation unit that includes the two gstuff headers in the other order
extern "C" void c04_gateway_default_context(unsigned char out[6]);
extern "C" int c04_gateway_roundtrip(const char *payload, int n, char *frame, int *framelen, char *delivered);

namespace
{
    struct Alphabet
    {
        uint8_t START, STOP, STUB, C_START, C_STOP, C_STUB;
        bool same() const { return START == STOP; }
    };
    const Alphabet ALPHA_V1 = {0xA8, 0xB2, 0xC5, 0x8A, 0x2B, 0x5C};
    const Alphabet ALPHA_V0 = {0xAC, 0xAC, 0xAD, 0xAE, 0xAE, 0xAF};
    // the configurable codec also runs with alphabets of the user's own (gstuff_context is a plain struct of six bytes): a printable one
    // (all markers and codes below 0x80) and an HDLC-like one (start == stop, below 0x80)
    const Alphabet ALPHA_PRINT = {'{', '}', '\\', '(', ')', '/'};
    // (the markers coincide, their escape codes do not - the shipped v0 alphabet is the one where both pairs coincide)
    const Alphabet ALPHA_HDLC = {0x7E, 0x7E, 0x7D, 0x5E, 0x5F, 0x5D};
    // ... and one in which the stuffing byte escapes itself by doubling (code for the stuffing byte == the stuffing byte)
    const Alphabet ALPHA_DOUBLING = {'[', ']', '%', '<', '>', '%'};
    // ... and a zero-delimited one (frames separated by 0x00, as in serial protocols that keep zero out of the body)
    const Alphabet ALPHA_ZERO = {0x00, 0x00, 0x01, 0x02, 0x02, 0x03};
    enum { VAR_CFG_V1 = 0, VAR_CFG_V0 = 1, VAR_LEGACY = 2, VAR_CFG_PRINT = 3, VAR_CFG_HDLC = 4, VAR_CFG_DOUBLING = 5, VAR_CFG_ZERO = 6, VAR_N = 7 };
    const char *VAR_NAME[] = {"configurable/v1-alphabet", "configurable/v0-alphabet(start==stop)", "legacy-c", "configurable/printable-alphabet", "configurable/hdlc-like-alphabet(start==stop)",
                              "configurable/doubling-alphabet(stuffing byte escapes itself)", "configurable/zero-delimited-alphabet(start==stop==0x00)"};
    const Alphabet &alpha_of(int v) { return v == VAR_CFG_V1 ? ALPHA_V1 : v == VAR_CFG_PRINT ? ALPHA_PRINT : v == VAR_CFG_HDLC ? ALPHA_HDLC : v == VAR_CFG_DOUBLING ? ALPHA_DOUBLING : v == VAR_CFG_ZERO ? ALPHA_ZERO : ALPHA_V0; }
    // the two shipped alphabets as a translation unit sees them that asks for them during static initialisation, before the
    // initialisers of the library's own translation units have run (a global receiver object in the application)
    gstuff_context g_early_v1 __attribute__((init_priority(150))) = gstuff_context();
    gstuff_context g_early_v0 __attribute__((init_priority(150))) = gstuff_context_v0();
    bool g_use_early_contexts = false;
    gstuff_context ctx_of(int v)
    {
        if (v == VAR_CFG_V1) return g_use_early_contexts ? g_early_v1 : gstuff_context();
        if (v == VAR_CFG_V0) return g_use_early_contexts ? g_early_v0 : gstuff_context_v0();
        const Alphabet &a = alpha_of(v);
        gstuff_context c;
        c.GSTUFF_START = (char)a.START;
        c.GSTUFF_STOP = (char)a.STOP;
        c.GSTUFF_STUB = (char)a.STUB;
        c.GSTUFF_STUB_START = (char)a.C_START;
        c.GSTUFF_STUB_STOP = (char)a.C_STOP;
        c.GSTUFF_STUB_STUB = (char)a.C_STUB;
        return c;
    }

    uint8_t ref_crc8(const Bytes &b) // independent bitwise CRC-8, poly 0x31, init 0xFF, MSB first
    {
        uint8_t crc = 0xFF;
        for (uint8_t c : b)
        {
            crc ^= c;
            for (int i = 0; i < 8; i++) crc = (crc & 0x80) ? (uint8_t)((crc << 1) ^ 0x31) : (uint8_t)(crc << 1);
        }
        return crc;
    }

    // reference encoder (the specification of the frame format)
    Bytes ref_encode(const Alphabet &a, const Bytes &p)
    {
        Bytes o;
        o.push_back(a.START);
        Bytes body = p;
        body.push_back(ref_crc8(p));
        for (uint8_t c : body)
        {
            if (c == a.START) { o.push_back(a.STUB); o.push_back(a.C_START); }
            else if (c == a.STUB) { o.push_back(a.STUB); o.push_back(a.C_STUB); }
            else if (c == a.STOP) { o.push_back(a.STUB); o.push_back(a.C_STOP); }
            else o.push_back(c);
        }
        o.push_back(a.STOP);
        return o;
    }

    enum Status { ST_CONT, ST_NEWPKG, ST_CRCERR, ST_OVERFLOW, ST_STUFFERR, ST_RESTART, ST_GARBAGE, ST_OTHER };
    const char *ST_NAME[] = {"CONTINUE", "NEWPACKAGE", "CRC_ERROR", "OVERFLOW", "STUFFING_ERROR", "FORCE_RESTART", "GARBAGE", "OTHER"};

    // ---------------------------------------------------------------- real receivers behind one interface
    struct Rx
    {
        virtual ~Rx() {}
        virtual Status put(uint8_t c) = 0;
        virtual Bytes delivered() = 0; // content of the completed packet (valid right after NEWPACKAGE)
        virtual size_t stored() = 0;
        virtual void touch() = 0; // the NUL-terminating accessor (writes buf[stored()])
        // receiver restart by its owner: how 1 = init() on the same buffer, 2 = setbuf() on the same buffer,
        // 3 = setbuf() onto a fresh buffer of the same capacity (the old block is freed: a stale pointer trips ASan)
        // 4 = setbuf() onto a fresh buffer of capacity newcap (given for how == 4 only)
        virtual void restart(int how, int newcap = 0) = 0;
        // the owner moves the receiver object to another place in the middle of the traffic (an element of a container that grows,
        // a port table that is compacted): the copy goes on where the original stood, on the same buffer
        virtual void relocate(int how) = 0;
        int form = 0; // how the owner hands a byte over: as char, signed char, unsigned char, or as an int widened from one of them
    };
    // habits of the receiver's owner in the current run (set by the link worlds from the plan, 0 = the plain ones)
    struct OwnerHabits
    {
        int form = 0, relocate_every = 0, relocate_how = 0;
    } g_owner;
    struct RxCfg : Rx
    {
        std::unique_ptr<uint8_t[]> buf;
        int cap;
        gstuff_autorecv r;
        RxCfg(const gstuff_context &ctx, int cap) : buf(new uint8_t[cap]), cap(cap), r(ctx) { r.init(buf.get(), cap); }
        Status put(uint8_t c) override
        {
            int sts;
            switch (form)
            {
            default: sts = r.newchar((char)c); break;
            case 1: sts = r.newchar((signed char)c); break;
            case 2: sts = r.newchar((unsigned char)c); break;
            case 3: sts = r.newchar((int)(signed char)c); break; // a byte widened from a signed buffer element
            case 4: { int8_t v = (int8_t)c; sts = r.newchar(v); break; }
            case 5: { uint8_t v = c; sts = r.newchar(v); break; }
            }
            switch (sts)
            {
            case GSTUFF_CONTINUE: return ST_CONT;
            case GSTUFF_NEWPACKAGE: return ST_NEWPKG;
            case GSTUFF_CRC_ERROR: return ST_CRCERR;
            case GSTUFF_OVERFLOW: return ST_OVERFLOW;
            case GSTUFF_STUFFING_ERROR: return ST_STUFFERR;
            case GSTUFF_FORCE_RESTART: return ST_RESTART;
            case GSTUFF_GARBAGE: return ST_GARBAGE;
            }
            return ST_OTHER;
        }
        Bytes delivered() override
        {
            size_t n = r.size();
            const char *s = r.cstr(); // writes the terminator at buf[size]
            if (s[n] != 0) violate("C05/cstr-terminator", "cstr()[size()] is not NUL");
            return Bytes((const uint8_t *)s, (const uint8_t *)s + n);
        }
        size_t stored() override { return r.size(); }
        void touch() override { (void)r.cstr(); }
        // (templates: a receiver class that is not copy-assignable / not copyable any more simply does not get that form)
        template <class R> static bool relocate_by_assignment(R &r, uint8_t *buf, int cap)
        {
            if constexpr (std::is_copy_assignable<R>::value && std::is_copy_constructible<R>::value)
            {
                // assignment into another, already initialised receiver object and back
                R other(r);
                R blank(other);
                blank.init(buf, cap);
                r = blank;
                r = other;
                return true;
            }
            return false;
        }
        template <class R> static void relocate_by_copy(R &r)
        {
            if constexpr (std::is_copy_constructible<R>::value)
            {
                // copy construction to the new place, the old object dies (what a growing std::vector of receivers does)
                alignas(R) unsigned char elsewhere[sizeof(R)];
                R *moved = new (elsewhere) R(r);
                r.~R();
                memset((void *)&r, 0xEE, sizeof r);
                new (&r) R(*moved);
                moved->~R();
            }
        }
        void relocate(int how) override
        {
            if (how % 2 == 0 || !relocate_by_assignment(r, buf.get(), cap)) relocate_by_copy(r);
        }
        void restart(int how, int newcap = 0) override
        {
            if (how == 4 || how == 5) cap = newcap;
            if (how == 1) r.init(buf.get(), cap);
            else if (how == 2 || how == 5) r.setbuf(buf.get(), cap); // (5: same pointer, shorter length; the block keeps its size)
            else
            {
                std::unique_ptr<uint8_t[]> fresh(new uint8_t[cap]);
                r.setbuf(fresh.get(), cap);
                buf.swap(fresh);
            }
        }
    };
    struct RxLegacy : Rx
    {
        std::unique_ptr<uint8_t[]> buf;
        int cap;
        gstuff_autorecv_v1 r;
        RxLegacy(int cap) : buf(new uint8_t[cap]), cap(cap)
        {
            // the legacy API has no constructor: setbuf is all the initialisation a caller-supplied struct ever gets, whatever the
            // storage held before (zeroes, small integers of an earlier stack frame, 0xA5 / 0xFF patterns)
            static const uint32_t fills[6] = {0, 3, 0xA5A5A5A5u, 0xFFFFFFFFu, 1, 7};
            uint32_t w = fills[((unsigned)cap ^ ((unsigned)cap >> 3)) % 6];
            for (size_t i = 0; i + 4 <= sizeof r; i += 4) memcpy((char *)&r + i, &w, 4);
            if (w) probe("legacy_receiver_in_dirty_storage");
            gstuff_autorecv_setbuf_v1(&r, buf.get(), cap);
        }
        Status put(uint8_t c) override
        {
            // the byte is handed over by an expression with a side effect (*p++, a call that pops a queue): evaluated exactly once
            char one[2] = {(char)c, (char)~c};
            const char *p = one;
            int pops = 0;
            auto pop = [&]() -> char { pops++; return (char)c; };
            int sts = form % 2 ? gstuff_autorecv_newchar_v1(&r, *p++) : gstuff_autorecv_newchar_v1(&r, pop());
            if (form % 2 ? p != one + 1 : pops != 1)
                violate("C04/argument-evaluated-again", "gstuff_autorecv_newchar_v1(&r, expr) evaluated its byte argument %d times", form % 2 ? (int)(p - one) : pops);
            switch (sts)
            {
            case GSTUFF_CONTINUE_V1: return ST_CONT;
            case GSTUFF_NEWPACKAGE_V1: return ST_NEWPKG;
            case GSTUFF_CRC_ERROR_V1: return ST_CRCERR;
            case GSTUFF_OVERFLOW_V1: return ST_OVERFLOW;
            case GSTUFF_DATA_ERROR_V1: return ST_STUFFERR;
            }
            return ST_OTHER;
        }
        Bytes delivered() override
        {
            // the legacy line holds payload + CRC (documented convention of that API): content = line minus the CRC byte
            size_t n = (size_t)sline_size(&r.line);
            const char *s = sline_getline(&r.line);
            if (n == 0) violate("C05/legacy-empty-package", "NEWPACKAGE with an empty line");
            return Bytes((const uint8_t *)s, (const uint8_t *)s + n - 1);
        }
        size_t stored() override { return (size_t)sline_size(&r.line); }
        void touch() override { (void)sline_getline(&r.line); }
        void relocate(int) override
        {
            gstuff_autorecv_v1 moved = r; // a C struct: plain structure assignment
            memset((void *)&r, 0xEE, sizeof r);
            r = moved;
        }
        void restart(int how, int newcap = 0) override
        {
            std::unique_ptr<uint8_t[]> fresh;
            if (how == 4 || how == 5) cap = newcap;
            if (how == 3 || how == 4) { fresh.reset(new uint8_t[cap]); buf.swap(fresh); }
            gstuff_autorecv_setbuf_v1(&r, buf.get(), cap); // (the object keeps whatever the interrupted session left in it)
        }
    };
    Rx *make_rx(int variant, int cap)
    {
        if (variant != VAR_LEGACY) return new RxCfg(ctx_of(variant), cap);
        return new RxLegacy(cap);
    }

    std::string hex(const Bytes &b, size_t max = 40);
    // ---------------------------------------------------------------- real encoders, exact-size outputs
    enum { ENC_PTR = 0, ENC_IOVEC = 1, ENC_VEC_BUF = 2, ENC_VEC_IOVEC = 3, ENC_N = 4 };
    Bytes real_encode(int variant, int enc, const Bytes &p, const std::vector<int64_t> &cuts)
    {
        size_t n = p.size();
        // exact-size heap copy of the payload: an encoder that reads past it is caught by ASan
        std::unique_ptr<char[]> in(new char[n ? n : 1]);
        if (n) memcpy(in.get(), p.data(), n);
        size_t maxout = 2 * n + 4;
        if (variant == VAR_LEGACY)
        {
            std::unique_ptr<char[]> out(new char[maxout]);
            int len = gstuffing_v1(in.get(), (int)n, out.get());
            if (len < 0 || (size_t)len > maxout) violate("C04/frame-too-long", "legacy encoder returned %d for n=%zu", len, n);
            return Bytes((uint8_t *)out.get(), (uint8_t *)out.get() + len);
        }
        gstuff_context ctx = ctx_of(variant);
        // iovec partition from the plan's cut points
        std::vector<size_t> cp = {0};
        for (auto c : cuts) cp.push_back((size_t)mod(c, (int64_t)n + 1));
        cp.push_back(n);
        std::sort(cp.begin(), cp.end());
        std::vector<struct iovec> iov;
        for (size_t i = 0; i + 1 < cp.size(); i++)
        {
            struct iovec v;
            v.iov_base = in.get() + cp[i];
            v.iov_len = cp[i + 1] - cp[i];
            iov.push_back(v);
            if (v.iov_len == 0) probe("empty_iovec_piece");
        }
        if (enc == ENC_IOVEC || enc == ENC_VEC_IOVEC)
        {
            // the same scatter list is framed more than once (a retransmission; a second link with the other alphabet): every
            // call must frame the payload the list describes
            gstuff_context other = variant == VAR_CFG_V0 ? gstuff_context() : gstuff_context_v0();
            const Alphabet &oa = variant == VAR_CFG_V0 ? ALPHA_V1 : ALPHA_V0;
            std::unique_ptr<char[]> out(new char[maxout]);
            int len = gstuffing_v(iov.data(), iov.size(), out.get(), other);
            if (len < 0 || (size_t)len > maxout) violate("C04/frame-too-long", "encoder returned %d for n=%zu", len, n);
            Bytes first((uint8_t *)out.get(), (uint8_t *)out.get() + len);
            Bytes again = gstuffing_v(iov.data(), iov.size(), other);
            Bytes want = ref_encode(oa, p);
            if (first != want || again != want)
                violate("C04/frame-bytes", "framing the same iovec array twice for the other link gives %s and then %s, the reference encoding is %s", hex(first).c_str(), hex(again).c_str(), hex(want).c_str());
            probe("same_iovec_framed_again");
        }
        if ((enc == ENC_VEC_BUF || enc == ENC_VEC_IOVEC) && n % 3 == 2)
        {
            // two results of the self-sizing encoders alive at the same time, bound by reference (no copy), and a frame tunnelled
            // through a second link: the encoder's input is the previous result
            const Alphabet &al = alpha_of(variant);
            Bytes p2(p.rbegin(), p.rend());
            p2.push_back(al.STUB);
            std::unique_ptr<char[]> in2(new char[p2.size()]);
            memcpy(in2.get(), p2.data(), p2.size());
            struct iovec one;
            one.iov_base = in2.get();
            one.iov_len = p2.size();
            const auto &f1 = enc == ENC_VEC_BUF ? gstuffing(igris::buffer(in.get(), n), ctx) : gstuffing_v(iov.data(), iov.size(), ctx);
            const auto &f2 = enc == ENC_VEC_BUF ? gstuffing(igris::buffer(in2.get(), p2.size()), ctx) : gstuffing_v(&one, 1, ctx);
            Bytes w1 = ref_encode(al, p), w2 = ref_encode(al, p2);
            if (Bytes(f1.begin(), f1.end()) != w1 || Bytes(f2.begin(), f2.end()) != w2)
                violate("C04/frame-bytes", "%s: two frames held at the same time: the first reads %s (reference %s), the second %s (reference %s)", VAR_NAME[variant], hex(Bytes(f1.begin(), f1.end())).c_str(),
                        hex(w1).c_str(), hex(Bytes(f2.begin(), f2.end())).c_str(), hex(w2).c_str());
            struct iovec tun;
            tun.iov_base = (void *)f1.data();
            tun.iov_len = f1.size();
            const auto &outer = enc == ENC_VEC_BUF ? gstuffing(igris::buffer((const char *)f1.data(), f1.size()), ctx) : gstuffing_v(&tun, 1, ctx);
            Bytes wo = ref_encode(al, w1);
            if (Bytes(outer.begin(), outer.end()) != wo)
                violate("C04/frame-bytes", "%s: a frame framed again (tunnelled) reads %s, reference %s", VAR_NAME[variant], hex(Bytes(outer.begin(), outer.end())).c_str(), hex(wo).c_str());
            probe("two_results_alive");
        }
        switch (enc)
        {
        case ENC_PTR:
        {
            std::unique_ptr<char[]> out(new char[maxout]);
            int len = gstuffing(in.get(), n, out.get(), ctx);
            if (len < 0 || (size_t)len > maxout) violate("C04/frame-too-long", "encoder returned %d for n=%zu", len, n);
            return Bytes((uint8_t *)out.get(), (uint8_t *)out.get() + len);
        }
        case ENC_IOVEC:
        {
            std::unique_ptr<char[]> out(new char[maxout]);
            if (n == 0 && cuts.size() % 2 == 1)
            {
                // the empty message as a scatter list of zero pieces ("send the first k pieces" with k == 0): the array behind the
                // pointer is not part of the message (an entry that describes other bytes, or no array at all)
                static char other[5] = {'O', 'T', 'H', 'E', 'R'};
                struct iovec not_ours;
                not_ours.iov_base = other;
                not_ours.iov_len = sizeof other;
                probe("scatter_list_of_zero_pieces");
                int len0 = gstuffing_v(cuts.size() % 4 == 1 ? &not_ours : (struct iovec *)nullptr, 0, out.get(), ctx);
                if (len0 < 0 || (size_t)len0 > maxout) violate("C04/frame-too-long", "encoder returned %d for a scatter list of zero pieces", len0);
                return Bytes((uint8_t *)out.get(), (uint8_t *)out.get() + len0);
            }
            int len = gstuffing_v(iov.data(), iov.size(), out.get(), ctx);
            if (len < 0 || (size_t)len > maxout) violate("C04/frame-too-long", "encoder returned %d for n=%zu", len, n);
            return Bytes((uint8_t *)out.get(), (uint8_t *)out.get() + len);
        }
        case ENC_VEC_BUF:
        {
            // the self-sizing encoder takes an igris::buffer: the payload is handed over as (pointer, length), as a
            // std::string or as a std::string_view (zero bytes are ordinary payload bytes in all three)
            // ... or, for a few lengths, as a plain (non-const) char array of exactly that many bytes
            auto via_array = [&](auto tag) -> Bytes {
                char arr[decltype(tag)::value];
                memcpy(arr, in.get(), sizeof arr);
                return gstuffing(igris::buffer(arr), ctx);
            };
            if (n == 0)
            {
                // the empty payload described by a buffer that points nowhere: a default-constructed igris::buffer, (nullptr, 0), the
                // data()/size() of an empty std::vector - or by a real address with length 0
                std::vector<char> none;
                switch (cuts.size() % 4)
                {
                case 0: return gstuffing(igris::buffer(), ctx);
                case 1: return gstuffing(igris::buffer((const char *)nullptr, (size_t)0), ctx);
                case 2: return gstuffing(igris::buffer(none.data(), none.size()), ctx);
                default: break;
                }
            }
            if (n && (uint8_t)p[0] % 2 == 0)
            {
                if (n == 1) return via_array(std::integral_constant<size_t, 1>());
                if (n == 2) return via_array(std::integral_constant<size_t, 2>());
                if (n == 3) return via_array(std::integral_constant<size_t, 3>());
                if (n == 5) return via_array(std::integral_constant<size_t, 5>());
                if (n == 8) return via_array(std::integral_constant<size_t, 8>());
                if (n == 16) return via_array(std::integral_constant<size_t, 16>());
            }
            if (n % 4 == 1 && memchr(in.get(), 0, n) == nullptr)
            {
                // a payload without zero bytes handed over as a C string, as (void*, int), and through a copy of the buffer
                std::string z(in.get(), n);
                Bytes a1 = gstuffing(igris::buffer(z.c_str()), ctx);
                igris::buffer b2((const void *)in.get(), (int)n);
                igris::buffer b3(b2);
                Bytes a3 = gstuffing(b3, ctx);
                if (a1 != a3) violate("C04/frame-bytes", "the same %zu payload bytes framed from a C string and from a copied (void*, int) buffer give different frames", n);
                return a1;
            }
            if (n % 4 == 3)
            {
                // the payload is the tail of a bigger message (a header in front of it), handed over as a slice that ends where
                // the parent ends
                std::string msg = std::string("HDR!") + std::string(in.get(), n);
                igris::buffer whole(msg.data(), msg.size());
                return gstuffing(whole.slice(4, n), ctx);
            }
            int how = (int)((n + (n ? (uint8_t)p[0] : 0)) % 3);
            if (how == 1) return gstuffing(igris::buffer(std::string(in.get(), n)), ctx); // (the temporary lives until the call returns)
            if (how == 2) return gstuffing(igris::buffer(std::string_view(in.get(), n)), ctx);
            return gstuffing(igris::buffer(in.get(), n), ctx);
        }
        default:
            if (n == 0 && cuts.size() % 2 == 1)
            {
                static char other[5] = {'O', 'T', 'H', 'E', 'R'};
                struct iovec not_ours;
                not_ours.iov_base = other;
                not_ours.iov_len = sizeof other;
                probe("scatter_list_of_zero_pieces");
                return gstuffing_v(cuts.size() % 4 == 1 ? &not_ours : (struct iovec *)nullptr, 0, ctx);
            }
            return gstuffing_v(iov.data(), iov.size(), ctx);
        }
    }

    // ---------------------------------------------------------------- the channel
    struct Elem
    {
        uint8_t b;
        int magic;    // 1: replaced at delivery time by the byte that completes the reference CRC (accidental match probe); 2: see run_stream
        int frame;    // index of the well-formed frame this byte belongs to, -1 otherwise
        int restart;  // receiver restart happens before this byte (0 none, else the kind: Rx::restart)
    };
    struct FrameMeta
    {
        Bytes payload;
        size_t first, last; // stream indices of its first and last byte
        bool intact;        // no fault touched it
    };

    // reference tracker of "the unescaped bytes since the last start marker" (A.2)
    struct RefTrack
    {
        const Alphabet &a;
        bool anchored = false, valid = true, esc = false;
        Bytes U;
        explicit RefTrack(const Alphabet &a) : a(a) {}
        void feed(uint8_t b)
        {
            if (b == a.START)
            {
                anchored = true;
                valid = true;
                esc = false;
                U.clear();
                return;
            }
            if (!a.same() && b == a.STOP)
            {
                anchored = false;
                return;
            }
            if (!anchored) return;
            if (esc)
            {
                esc = false;
                if (b == a.C_START) U.push_back(a.START);
                else if (b == a.C_STOP) U.push_back(a.STOP);
                else if (b == a.C_STUB) U.push_back(a.STUB);
                else valid = false;
                return;
            }
            if (b == a.STUB) { esc = true; return; }
            U.push_back(b);
        }
    };

    std::string hex(const Bytes &b, size_t max)
    {
        std::string s;
        char t[4];
        for (size_t i = 0; i < b.size() && i < max; i++) { snprintf(t, sizeof t, "%02x", b[i]); s += t; }
        if (b.size() > max) s += "..";
        return s;
    }

    struct LinkStats
    {
        bool fault_inside_frame = false, later_frame = false;
        uint64_t delivered = 0, bytes = 0;
    };

    // feeds one assembled stream to a fresh real receiver and evaluates S1..S4 (C05) / the lossless oracle (C04)
    void run_stream(int variant, int cap, const std::vector<Elem> &stream, const std::vector<FrameMeta> &frames,
                    long last_fault_pos, bool fault_free, Trace &tr, LinkStats &ls)
    {
        const Alphabet &a = alpha_of(variant);
        std::unique_ptr<Rx> rx(make_rx(variant, cap));
        rx->form = g_owner.form;
        if (g_owner.form) probe("bytes_handed_over_as_another_integer_type");
        // a second receiver of another framing variant works next to the one under test on clean traffic of its own (one byte
        // of it per byte of the stream): whatever happens on the first link, the second delivers every one of its frames
        int by_variant = (variant + 1 + (int)(stream.size() % 2)) % VAR_N;
        const Alphabet &ba = alpha_of(by_variant);
        const bool with_bystander = stream.size() >= 16; // (not for the millions of exhaustive short streams)
        std::unique_ptr<Rx> by(with_bystander ? make_rx(by_variant, 8) : nullptr);
        const Bytes by_payload = {(uint8_t)'b', (uint8_t)'y', ba.START};
        const Bytes by_frame = ref_encode(ba, by_payload);
        size_t by_pos = 0, by_frames = 0;
        RefTrack ref(a);
        std::vector<int> delivered_at(stream.size(), 0);
        std::vector<char> overflow_in_frame(frames.size(), 0), newpkg_in_frame(frames.size(), 0);
        std::vector<Bytes> got(frames.size());
        std::vector<char> got_at_last(frames.size(), 0);
        for (size_t j = 0; j < stream.size(); j++)
        {
            const Elem &e = stream[j];
            if (e.restart)
            {
                if (e.restart == 4 || e.restart == 5) cap = std::max(2, cap / 2); // the owner re-binds the receiver to a smaller buffer (4: a fresh one, 5: the window of the same one shrinks)
                rx->restart(e.restart, cap);
                ref.anchored = false; // nothing before a restart counts as "since the last start marker"
                fault(e.restart == 1 ? "receiver_restart" : e.restart == 2 ? "receiver_restart_setbuf" : e.restart == 3 ? "receiver_restart_new_buffer" : e.restart == 4 ? "receiver_restart_smaller_buffer" : "receiver_restart_same_buffer_shorter");
                // right after the re-bind, before any further byte: the accessors see an empty line inside the new buffer
                if (rx->stored() > (size_t)cap - 1) violate("C05/S1-capacity", "%s: right after a re-bind to a buffer of capacity %d the receiver reports %zu stored bytes", VAR_NAME[variant], cap, rx->stored());
                if (e.restart == 4 || e.restart == 5) rx->touch();
            }
            uint8_t b = e.b;
            if (e.magic)
            {
                // the byte that makes the running CRC of the reference's unescaped bytes come out as 0
                b = ref_crc8(ref.U);
                if (e.magic == 2)
                {
                    // ... under the hypothesis that the receiver decoded the preceding (invalid) escape pair to e.b
                    Bytes hyp = ref.U;
                    hyp.push_back(e.b);
                    b = ref_crc8(hyp);
                }
                if (b == a.START || b == a.STOP || b == a.STUB) b ^= 0x01; // keep it an ordinary data byte
                probe("crc_completing_byte");
            }
            // state of the reference just before this byte
            bool anch = ref.anchored, valid = ref.valid, esc = ref.esc;
            Bytes U = ref.U;
            Status st = rx->put(b);
            if (g_owner.relocate_every && (j + 1) % (size_t)g_owner.relocate_every == 0)
            {
                rx->relocate(g_owner.relocate_how + (int)j);
                probe("receiver_object_relocated_in_mid_traffic");
            }
            ls.bytes++;
            tr.u(((uint64_t)b << 8) | (uint64_t)st);
            if (tr.verbose) tr.lines.push_back("byte " + std::to_string(j) + " " + hex(Bytes{b}) + " -> " + ST_NAME[st] + " stored=" + std::to_string(rx->stored()));
            // S1: never more than capacity-1 bytes stored
            if (rx->stored() > (size_t)cap - 1)
                violate("C05/S1-capacity", "%s: %zu bytes stored in a buffer of capacity %d after byte %zu", VAR_NAME[variant], rx->stored(), cap, j);
            // informational statuses (restart, garbage, codes this harness does not know) are not deliveries and not errors;
            // only an error status on fault-free traffic contradicts "exactly one completed packet per frame"
            if (st == ST_OTHER) probe("undocumented_status");
            if (fault_free && (long)j > last_fault_pos && (st == ST_CRCERR || st == ST_OVERFLOW || st == ST_STUFFERR))
                violate("C04/status", "%s: error status %s at byte %zu of fault-free traffic", VAR_NAME[variant], ST_NAME[st], j);
            if (e.frame >= 0 && st == ST_OVERFLOW) overflow_in_frame[e.frame] = 1;
            if (st == ST_NEWPKG)
            {
                ls.delivered++;
                Bytes d = rx->delivered();
                // S2 soundness: delivered == unescape(bytes since the last raw start marker) minus a matching CRC-8
                bool is_stop = (b == a.STOP);
                if (!is_stop) violate("C05/S2-delivery-not-at-stop", "%s: NEWPACKAGE at byte %zu which is not a stop marker", VAR_NAME[variant], j);
                if (!anch)
                    violate("C05/S2-unanchored", "%s: packet %s delivered at byte %zu although no start marker precedes it (since the last stop/restart)",
                            VAR_NAME[variant], hex(d).c_str(), j);
                if (!valid || esc)
                    violate("C05/S2-invalid-escape", "%s: packet %s delivered at byte %zu although the bytes since the last start marker contain an invalid or dangling escape",
                            VAR_NAME[variant], hex(d).c_str(), j);
                if (U.empty() || ref_crc8(U) != 0)
                    violate("C05/S2-crc", "%s: packet delivered at byte %zu but the unescaped bytes since the last start marker (%s) do not end in their CRC-8",
                            VAR_NAME[variant], j, hex(U).c_str());
                Bytes want(U.begin(), U.end() - 1);
                if (d != want)
                    violate("C05/S2-content", "%s: delivered %s at byte %zu, bytes since the last start marker decode to %s", VAR_NAME[variant],
                            hex(d).c_str(), j, hex(want).c_str());
                // a packet completed by the FIRST byte of a frame (possible only when start == stop) belongs to the
                // bytes before the frame, not to the frame
                if (e.frame >= 0 && j > frames[e.frame].first)
                {
                    newpkg_in_frame[e.frame]++;
                    if (j == frames[e.frame].last) { got_at_last[e.frame] = 1; got[e.frame] = d; }
                }
                if (e.frame < 0) probe("accidental_crc_match");
            }
            ref.feed(b);
            if (with_bystander)
            {
                Status bs = by->put(by_frame[by_pos]);
                bool last = by_pos + 1 == by_frame.size();
                if (bs == ST_CRCERR || bs == ST_OVERFLOW || bs == ST_STUFFERR || (bs == ST_NEWPKG) != last)
                    violate(fault_free ? "C04/bystander" : "C05/bystander", "a second receiver (%s) fed clean frames next to the receiver under test (%s) answered %s at byte %zu of its frame #%zu",
                            VAR_NAME[by_variant], VAR_NAME[variant], ST_NAME[bs], by_pos, by_frames);
                if (last)
                {
                    if (by->delivered() != by_payload) violate(fault_free ? "C04/bystander" : "C05/bystander", "a second receiver (%s) working next to the receiver under test delivered another payload than was sent", VAR_NAME[by_variant]);
                    by_frames++;
                    by_pos = 0;
                }
                else by_pos++;
            }
        }
        // per-frame obligations
        int eligible_seen = 0;
        for (size_t f = 0; f < frames.size(); f++)
        {
            const FrameMeta &fm = frames[f];
            if (!fm.intact) continue;
            bool after_faults = (long)fm.first > last_fault_pos;
            if (!after_faults) continue;
            bool fits = fm.payload.size() + 1 <= (size_t)cap - 1;
            eligible_seen++;
            bool must = !a.same() || eligible_seen >= 2 || last_fault_pos < 0;
            if (last_fault_pos >= 0 && eligible_seen >= (a.same() ? 2 : 1)) ls.later_frame = true;
            if (fits)
            {
                if (must && !got_at_last[f])
                    violate(fault_free ? "C04/frame-not-delivered" : "C05/S3-resync",
                            "%s: well-formed frame #%zu (payload %s, stream bytes %zu..%zu, %s) was not delivered at its last byte",
                            VAR_NAME[variant], f, hex(fm.payload).c_str(), fm.first, fm.last,
                            last_fault_pos < 0 ? "no fault before it" : "after the last fault");
                if (got_at_last[f] && got[f] != fm.payload)
                    violate(fault_free ? "C04/content" : "C05/S3-content", "%s: frame #%zu delivered as %s, payload was %s", VAR_NAME[variant], f,
                            hex(got[f]).c_str(), hex(fm.payload).c_str());
                if (newpkg_in_frame[f] > (got_at_last[f] ? 1 : 0))
                    violate(fault_free ? "C04/extra-delivery" : "C05/S3-extra-delivery", "%s: frame #%zu produced a completed packet before its last byte",
                            VAR_NAME[variant], f);
            }
            else if (must)
            {
                // S4: a frame that does not fit is reported as overflow, never delivered
                probe("frame_too_long_for_buffer");
                if (fm.payload.size() + 1 == (size_t)cap) probe("one_byte_too_long");
                if (newpkg_in_frame[f]) violate("C05/S4-oversize-delivered", "%s: frame #%zu (%zu+1 bytes) delivered into a buffer of capacity %d", VAR_NAME[variant], f, fm.payload.size(), cap);
                if (!overflow_in_frame[f]) violate("C05/S4-no-overflow", "%s: frame #%zu (%zu+1 bytes) does not fit capacity %d but no OVERFLOW was reported", VAR_NAME[variant], f, fm.payload.size(), cap);
            }
        }
    }

    // plan ops
    enum { OP_FRAME = 0, OP_SPLIT = 1, OP_NOISE = 2, OP_FAULT = 3, OP_SWEEP = 4, OP_N = 5 };
    // fault kinds (OP_FAULT: [3, kind, offset, value, count], attached to the nearest preceding FRAME)
    enum { F_DROP = 0, F_DROPRANGE = 1, F_FLIP = 2, F_REPLACE = 3, F_INSERT = 4, F_DUP = 5, F_RESTART = 6, F_MAGIC = 7, F_N = 8 };
    const char *F_NAME[] = {"drop_byte", "drop_range", "flip_bits", "replace_byte", "insert_byte", "duplicate_byte", "receiver_restart", "insert_crc_completing_byte"};

    uint8_t special_byte(const Alphabet &a, int64_t v)
    {
        // values >= 256 select a marker / escape byte of the alphabet in use
        if (v < 256) return (uint8_t)mod(v, 256);
        const uint8_t tab[] = {a.START, a.STOP, a.STUB, a.C_START, a.C_STOP, a.C_STUB, 0x00, 0xFF};
        return tab[mod(v - 256, 8)];
    }

    struct Piece
    {
        Bytes bytes;        // encoded frame or noise
        int frame = -1;     // index into frames, or -1 for noise
        bool faulted = false;
        std::vector<Op> faults;
    };

    void apply_fault(const Alphabet &a, std::vector<Elem> &es, const Op &f, long base, long &last_fault)
    {
        if (es.empty()) return;
        int kind = (int)mod(arg(f, 1), F_N);
        size_t off = (size_t)mod(arg(f, 2), (int64_t)es.size());
        int64_t val = arg(f, 3);
        size_t cnt = (size_t)mod(arg(f, 4), 8) + 1;
        fault(F_NAME[kind]);
        if (off > 0 && off + 1 < es.size()) stat("fault_strictly_inside_frame");
        switch (kind)
        {
        case F_DROP: es.erase(es.begin() + off); break;
        case F_DROPRANGE:
            if (off + cnt > es.size()) cnt = es.size() - off;
            es.erase(es.begin() + off, es.begin() + off + cnt);
            break;
        case F_FLIP: es[off].b ^= (uint8_t)(mod(val, 255) + 1); break;
        case F_REPLACE: es[off].b = special_byte(a, val); break;
        case F_INSERT: es.insert(es.begin() + off, Elem{special_byte(a, val), 0, -1, 0}); break;
        case F_DUP: es.insert(es.begin() + off, es[off]); break;
        case F_RESTART: es[off].restart = 1 + (int)mod(val, 5); break; // (5: the same buffer re-bound with half the length)
        case F_MAGIC: es.insert(es.begin() + off, Elem{0, 1, -1, 0}); break;
        }
        for (auto &e : es) e.frame = -1; // a faulted frame is no longer a well-formed frame
        long pos = base + (long)std::min(off + cnt, es.size());
        (void)pos;
        last_fault = std::max(last_fault, base + (long)es.size() - 1);
    }

    struct LinkWorld : World
    {
        bool faults;
        explicit LinkWorld(bool f) : faults(f) {}
        const char *name() const override { return faults ? "link-with-faults" : "link-fault-free"; }
        unsigned weight(Tier) const override { return 7; }

        Bytes gen_payload(Rng &r, const Alphabet &a, int maxlen)
        {
            int style = (int)r.below(6);
            int n = (int)r.below((uint64_t)maxlen + 1);
            if (r.chance(1, 10)) n = 0;
            // (payload + CRC of exactly 256 or 512 bytes, and their neighbours, when the traffic has long frames at all)
            if (maxlen >= 512 && r.chance(1, 3)) n = (int)r.pick<int64_t>({254, 255, 256, 257, 510, 511, 512});
            Bytes p;
            const uint8_t sp[] = {a.START, a.STOP, a.STUB, a.C_START, a.C_STOP, a.C_STUB, 0x00, 0xFF};
            for (int i = 0; i < n; i++)
            {
                if (style == 0) p.push_back((uint8_t)r.below(256));
                else if (style == 1) p.push_back(sp[r.below(8)]);
                else if (style == 2) p.push_back(r.chance(1, 2) ? sp[r.below(6)] : (uint8_t)r.below(256));
                else if (style == 3) p.push_back(sp[r.below(3)]); // every byte needs escaping
                else p.push_back(r.chance(1, 6) ? sp[r.below(8)] : (uint8_t)('a' + r.below(26)));
            }
            // steer the CRC onto a marker / escape byte by searching over the last byte
            if (n > 0 && r.chance(1, 3))
            {
                uint8_t target = sp[r.below(6)];
                for (int v = 0; v < 256; v++)
                {
                    p[n - 1] = (uint8_t)v;
                    if (ref_crc8(p) == target) break;
                }
            }
            return p;
        }

        Plan generate(Rng &r, Tier tier) override
        {
            Plan p;
            int variant = (int)r.below(VAR_N);
            const Alphabet &a = alpha_of(variant);
            int maxlen = tier == THOROUGH ? (r.chance(1, 8) ? (faults ? 200 : 700) : 48) : (r.chance(1, 10) ? 64 : 20);
            if (faults && r.chance(1, 16)) maxlen = 600; // frames of 256 bytes and more (no per-offset sweep for these)
            if (!faults && tier == QUICK && r.chance(1, 25)) maxlen = 520; // pieces of 256 bytes and more
            int enc = (int)r.below(ENC_N);
            int nframes = (int)r.range(faults ? 2 : 1, faults ? 6 : 5);
            bool longrun = r.chance(1, 40); // a long session: what only accumulates over hundreds of frames on one receiver
            if (longrun) { nframes = (int)r.range(60, 150); maxlen = std::min(maxlen, 48); }
            std::vector<Bytes> pls;
            size_t longest = 0;
            for (int i = 0; i < nframes; i++)
            {
                pls.push_back(gen_payload(r, a, maxlen));
                longest = std::max(longest, pls.back().size());
            }
            int cap;
            if (!faults) cap = (int)longest + 2 + (int)r.below(3);
            else
            {
                int k = (int)r.below(10);
                if (k < 5) cap = (int)longest + 2 + (int)r.below(3); // everything fits
                else if (k < 8) cap = (int)std::max<size_t>(2, longest + 1 - r.below(std::min<size_t>(longest + 1, 3))); // one byte short ..
                else cap = (int)r.range(2, 6);
            }
            if (cap < 2) cap = 2;
            if (r.chance(1, 30)) cap = (int)r.pick<int64_t>({65535, 65536, 65537, 70000, 131072}); // every frame fits by far; the size itself is the point
            // cfg[3], cfg[4] (fault-free world): the receiver object had an earlier session that ended in the middle of a frame
            // (cfg[4] selects where) and was then re-initialised by its owner in way cfg[3] (0: no earlier session); cfg[3] = 4: the
            // earlier traffic was one complete frame too long for the buffer, and the receiver was not re-initialised; cfg[3] = 5: the
            // earlier traffic was one complete frame damaged inside an escape pair, no re-initialisation either; cfg[3] = 6: a complete
            // frame with a wrong CRC; cfg[3] = 7: a frame that lost its tail (a proper prefix), no re-initialisation
            p.cfg = {variant, enc, cap, !faults && r.chance(1, 4) ? (int64_t)r.range(1, 7) : 0, (int64_t)r.below(64)};
            // cfg[5..7]: habits of the receiver's owner - the integer type a byte is handed over as (configurable receiver), and a
            // relocation of the receiver object after every cfg[6]-th byte (0: never) by copy construction / by assignment
            p.cfg.push_back(r.chance(1, 3) ? (int64_t)r.below(6) : 0);
            p.cfg.push_back(r.chance(1, 4) ? (int64_t)r.range(1, 23) : 0);
            p.cfg.push_back((int64_t)r.below(2));
            bool sweep = faults && r.chance(1, 3) && longest <= 200 && !longrun;
            if (faults && r.chance(1, 3))
            {
                // garbage prefix
                Op nz = {OP_NOISE};
                int n = (int)r.range(1, 12);
                for (int i = 0; i < n; i++) nz.push_back(r.chance(1, 3) ? 256 + (int64_t)r.below(8) : (int64_t)r.below(256));
                if (r.chance(1, 3)) nz.push_back(300); // crc-completing byte
                p.ops.push_back(nz);
            }
            int nfaults_total = 0;
            for (int i = 0; i < nframes; i++)
            {
                if (r.chance(1, 3))
                {
                    Op sp = {OP_SPLIT};
                    int k = (int)r.range(1, 4);
                    for (int j = 0; j < k; j++) sp.push_back((int64_t)r.below(pls[i].size() + 2));
                    p.ops.push_back(sp);
                }
                Op f = {OP_FRAME};
                for (uint8_t b : pls[i]) f.push_back(b);
                p.ops.push_back(f);
                if (faults && !sweep && i + 1 < nframes + 0 && r.chance(2, 5) && nfaults_total < 3)
                {
                    int nf = r.chance(1, 4) ? 2 : 1;
                    for (int j = 0; j < nf; j++)
                    {
                        int kind = (int)r.below(F_N);
                        int64_t val = r.chance(1, 2) ? 256 + (int64_t)r.below(8) : (int64_t)r.below(256);
                        p.ops.push_back({OP_FAULT, kind, (int64_t)r.below(2 * pls[i].size() + 4), val, (int64_t)r.below(8)});
                        nfaults_total++;
                    }
                }
                if (faults && !sweep && r.chance(1, 6))
                {
                    Op nz = {OP_NOISE};
                    int n = (int)r.range(1, 6);
                    for (int j = 0; j < n; j++) nz.push_back(r.chance(1, 2) ? 256 + (int64_t)r.below(8) : (int64_t)r.below(256));
                    if (r.chance(1, 2)) nz.push_back(300);
                    p.ops.push_back(nz);
                }
            }
            if (sweep) p.ops.push_back({OP_SWEEP, (int64_t)r.below(F_N), r.chance(1, 2) ? 256 + (int64_t)r.below(8) : (int64_t)r.below(256)});
            return p;
        }

        std::string describe(const Plan &p) override
        {
            int variant = (int)mod(p.c(0), VAR_N);
            std::string s = std::string(VAR_NAME[variant]) + " encoder=" + std::to_string(mod(p.c(1), ENC_N)) + " cap=" + std::to_string(p.c(2)) + " traffic:";
            for (auto &o : p.ops)
            {
                int k = (int)mod(arg(o, 0), OP_N);
                if (k == OP_FRAME || k == OP_NOISE)
                {
                    s += k == OP_FRAME ? " frame[" : " noise[";
                    for (size_t i = 1; i < o.size(); i++)
                    {
                        char t[8];
                        if (o[i] >= 256) snprintf(t, sizeof t, "<%lld>", (long long)o[i]);
                        else snprintf(t, sizeof t, "%02x", (unsigned)mod(o[i], 256));
                        s += t;
                    }
                    s += "]";
                }
                else if (k == OP_SPLIT) s += " split";
                else if (k == OP_FAULT) s += std::string(" fault(") + F_NAME[mod(arg(o, 1), F_N)] + "@" + std::to_string(arg(o, 2)) + "," + std::to_string(arg(o, 3)) + ")";
                else s += std::string(" sweep-every-offset(") + F_NAME[mod(arg(o, 1), F_N)] + ")";
            }
            return s;
        }

        Result execute(const Plan &p, Trace &tr) override
        {
            Result res;
            int variant = (int)mod(p.c(0), VAR_N);
            int enc = (int)mod(p.c(1), ENC_N);
            // capacities 2..401, or (cfg[2] >= 60000) a huge buffer of up to 200000 bytes: sizes around the 16-bit boundary
            int cap = p.c(2) >= 60000 ? (int)std::min<int64_t>(p.c(2), 200000) : (int)mod(p.c(2) - 2, 400) + 2;
            const Alphabet &a = alpha_of(variant);
            struct HabitsGuard
            {
                ~HabitsGuard() { g_owner = OwnerHabits(); g_use_early_contexts = false; }
            } habits_guard;
            if (variant == VAR_CFG_V1)
            {
                // the default alphabet is the same in every translation unit, whatever else that unit includes and in which order
                unsigned char dc[6];
                c04_gateway_default_context(dc);
                const Alphabet &d = ALPHA_V1;
                if (dc[0] != d.START || dc[1] != d.STOP || dc[2] != d.STUB || dc[3] != d.C_START || dc[4] != d.C_STOP || dc[5] != d.C_STUB)
                    violate(faults ? "C05/default-alphabet" : "C04/default-alphabet", "a translation unit that includes the legacy header before gstuff.h gets the default context %02x %02x %02x %02x %02x %02x, the default alphabet is a8 b2 c5 8a 2b 5c", dc[0], dc[1], dc[2], dc[3], dc[4], dc[5]);
                char pl[20], fr[64], got[80];
                int n0 = (int)mod(p.c(4, 0), 20), fl = 0;
                for (int i = 0; i < n0; i++) pl[i] = (char)(i % 3 == 0 ? d.START : i % 3 == 1 ? d.STUB : 'a' + i);
                int dn = c04_gateway_roundtrip(pl, n0, fr, &fl, got);
                Bytes want = ref_encode(d, Bytes((uint8_t *)pl, (uint8_t *)pl + n0));
                if (dn != n0 || memcmp(got, pl, (size_t)n0) != 0 || Bytes((uint8_t *)fr, (uint8_t *)fr + fl) != want)
                    violate(faults ? "C05/default-alphabet" : "C04/default-alphabet", "encode + decode with the default context in the gateway translation unit: %d of %d bytes delivered, frame %s, reference %s", dn, n0, hex(Bytes((uint8_t *)fr, (uint8_t *)fr + fl)).c_str(), hex(want).c_str());
                probe("second_translation_unit_with_the_other_include_order");
            }
            g_use_early_contexts = mod(p.c(4, 0), 3) == 1; // (reset by the guard below)
            if (g_use_early_contexts && (variant == VAR_CFG_V1 || variant == VAR_CFG_V0)) probe("alphabet_taken_during_static_initialisation");
            g_owner.form = (int)mod(p.c(5, 0), 6);
            g_owner.relocate_every = (int)mod(p.c(6, 0), 24);
            g_owner.relocate_how = (int)mod(p.c(7, 0), 2);
            // ---- assemble pieces: encode every frame with the real encoder, check the frame format (C04 part 2)
            std::vector<Piece> pieces;
            std::vector<FrameMeta> frames;
            std::vector<int64_t> cuts;
            int sweep_kind = -1;
            int64_t sweep_val = 0;
            size_t maxpayload = 0;
            for (auto &o : p.ops)
            {
                int k = (int)mod(arg(o, 0), OP_N);
                if (k == OP_SPLIT) { cuts.assign(o.begin() + 1, o.end()); continue; }
                if (k == OP_FRAME)
                {
                    Bytes pl;
                    for (size_t i = 1; i < o.size(); i++) pl.push_back((uint8_t)mod(o[i], 256));
                    maxpayload = std::max(maxpayload, pl.size());
                    // C05 is about the receiver on arbitrary streams: its traffic comes from the reference encoder, so an
                    // encoder regression (C04's subject) cannot raise a C05 alarm
                    Bytes want = ref_encode(a, pl);
                    Bytes encd = faults ? want : real_encode(variant, enc, pl, cuts);
                    cuts.clear();
                    // frame format: starts with START, ends with STOP, no raw marker in between, <= 2n+4
                    if (encd.empty() || encd.front() != a.START) violate("C04/frame-start", "%s: frame does not start with the start marker: %s", VAR_NAME[variant], hex(encd).c_str());
                    if (encd.back() != a.STOP || encd.size() < 2) violate("C04/frame-stop", "%s: frame does not end with the stop marker: %s", VAR_NAME[variant], hex(encd).c_str());
                    if (encd.size() > 2 * pl.size() + 4) violate("C04/frame-too-long", "%s: frame of %zu bytes for a %zu byte payload", VAR_NAME[variant], encd.size(), pl.size());
                    for (size_t i = 1; i + 1 < encd.size(); i++)
                        if (encd[i] == a.START || encd[i] == a.STOP)
                            violate("C04/unescaped-marker", "%s: raw marker %02x inside the frame at offset %zu (payload %s, frame %s)", VAR_NAME[variant], encd[i], i,
                                    hex(pl).c_str(), hex(encd).c_str());
                    if (encd != want)
                        violate("C04/frame-bytes", "%s: frame %s differs from the reference encoding %s (payload %s)", VAR_NAME[variant], hex(encd).c_str(), hex(want).c_str(), hex(pl).c_str());
                    uint8_t crc = ref_crc8(pl);
                    if (crc == a.START || crc == a.STOP || crc == a.STUB) probe("crc_is_marker");
                    if (pl.empty()) probe("empty_payload");
                    if (pl.size() >= 256) probe("payload_256_or_more");
                    if (!pl.empty() && encd.size() == 2 * pl.size() + 4) probe("max_expansion");
                    if (!pl.empty() && encd.size() >= 2 * pl.size() + 3) probe("all_bytes_escaped");
                    Piece pc;
                    pc.bytes = encd;
                    pc.frame = (int)frames.size();
                    FrameMeta fm;
                    fm.payload = pl;
                    fm.intact = true;
                    fm.first = fm.last = 0;
                    frames.push_back(fm);
                    pieces.push_back(pc);
                }
                else if (k == OP_NOISE && faults)
                {
                    Piece pc;
                    for (size_t i = 1; i < o.size(); i++) pc.bytes.push_back(o[i] == 300 ? 0 : special_byte(a, o[i]));
                    pc.frame = -2;
                    // remember which noise bytes are "crc completing"
                    Op marks = {OP_NOISE};
                    for (size_t i = 1; i < o.size(); i++) marks.push_back(o[i] == 300 ? 1 : 0);
                    pc.faults.push_back(marks);
                    pieces.push_back(pc);
                }
                else if (k == OP_FAULT && faults)
                {
                    for (size_t i = pieces.size(); i-- > 0;)
                        if (pieces[i].frame >= 0) { pieces[i].faults.push_back(o); break; }
                }
                else if (k == OP_SWEEP && faults)
                {
                    sweep_kind = (int)mod(arg(o, 1), F_N);
                    sweep_val = arg(o, 2);
                }
            }
            if (frames.empty()) return res;
            if (!faults) cap = std::max(cap, (int)maxpayload + 2); // C04: a large enough buffer

            LinkStats ls;
            int earlier = faults ? 0 : (int)mod(p.c(3, 0), 8);
            if (earlier == 4 && cap > 1000) earlier = 0; // (an oversized frame for a huge buffer would be a huge frame)
            if (earlier == 7 && a.same()) earlier = 0;   // (with one marker for start and stop the next frame's opening marker legitimately closes the torso with an error)
            auto build_and_run = [&](long sweep_off) {
                std::vector<Elem> stream;
                std::vector<FrameMeta> fr = frames;
                long last_fault = -1;
                if (earlier == 4)
                {
                    // a complete frame whose payload alone fills the buffer: reported as overflow, then the line goes on
                    Bytes pl;
                    for (int i = 0; i < cap; i++) pl.push_back((uint8_t)('a' + (i + (int)mod(p.c(4, 0), 26)) % 26));
                    for (uint8_t b : ref_encode(a, pl)) stream.push_back(Elem{b, 0, -1, 0});
                    last_fault = (long)stream.size() - 1;
                    probe("receiver_reused_after_overflow");
                }
                else if (earlier == 6)
                {
                    // a complete frame whose CRC byte is wrong (one flipped bit in a plain data byte)
                    Bytes pl = {(uint8_t)'c', (uint8_t)'r', (uint8_t)('a' + mod(p.c(4, 0), 20))};
                    Bytes fe = ref_encode(a, pl);
                    fe[1] ^= 0x01; // 'c' -> 'b': still an ordinary data byte
                    for (uint8_t b : fe) stream.push_back(Elem{b, 0, -1, 0});
                    last_fault = (long)stream.size() - 1;
                    probe("receiver_reused_after_crc_error");
                }
                else if (earlier == 5)
                {
                    // a complete frame with stored bytes and then an escape pair whose second byte is no escape code
                    size_t keep = 1 + (size_t)mod(p.c(4, 0), 3);
                    stream.push_back(Elem{a.START, 0, -1, 0});
                    for (size_t i = 0; i < keep && i + 3 < (size_t)cap; i++) stream.push_back(Elem{(uint8_t)('p' + i), 0, -1, 0});
                    stream.push_back(Elem{a.STUB, 0, -1, 0});
                    stream.push_back(Elem{0x00, 0, -1, 0});
                    stream.push_back(Elem{(uint8_t)'z', 0, -1, 0});
                    stream.push_back(Elem{a.STOP, 0, -1, 0});
                    last_fault = (long)stream.size() - 1;
                    probe("receiver_reused_after_damaged_escape");
                }
                else if (earlier == 7)
                {
                    Bytes pl = frames[0].payload;
                    std::reverse(pl.begin(), pl.end());
                    Bytes fe = ref_encode(a, pl);
                    size_t k = 2 + (size_t)mod(p.c(4, 0), (int64_t)fe.size() - 2);
                    for (size_t i = 0; i < k; i++) stream.push_back(Elem{fe[i], 0, -1, 0});
                    last_fault = (long)stream.size() - 1;
                    probe("receiver_reused_after_truncated_frame");
                }
                else if (earlier)
                {
                    // the earlier session: a proper prefix of a well-formed frame (at least its start marker and one more byte)
                    // (its payload is no longer than the first frame's, so it fits the buffer)
                    Bytes pl = frames[0].payload;
                    std::reverse(pl.begin(), pl.end());
                    Bytes fe = ref_encode(a, pl);
                    size_t k = 2 + (size_t)mod(p.c(4, 0), (int64_t)fe.size() - 2); // 2 .. size-1: never the closing marker
                    for (size_t i = 0; i < k; i++) stream.push_back(Elem{fe[i], 0, -1, 0});
                    probe("receiver_reinitialised_mid_frame");
                }
                for (auto &pc : pieces)
                {
                    std::vector<Elem> es;
                    if (pc.frame == -2)
                    {
                        const Op &marks = pc.faults[0];
                        for (size_t i = 0; i < pc.bytes.size(); i++) es.push_back(Elem{pc.bytes[i], (int)arg(marks, i + 1), -1, 0});
                        last_fault = std::max(last_fault, (long)stream.size() + (long)es.size() - 1);
                        fault("noise_burst");
                    }
                    else
                    {
                        for (uint8_t b : pc.bytes) es.push_back(Elem{b, 0, pc.frame, 0});
                        for (auto &f : pc.faults)
                        {
                            size_t off = (size_t)mod(arg(f, 2), (int64_t)es.size());
                            if (off > 0 && off + 1 < es.size()) ls.fault_inside_frame = true;
                            apply_fault(a, es, f, (long)stream.size(), last_fault);
                            fr[pc.frame].intact = false;
                        }
                        if (sweep_off >= 0 && sweep_off >= (long)stream.size() && sweep_off < (long)(stream.size() + es.size()))
                        {
                            Op f = {OP_FAULT, sweep_kind, sweep_off - (long)stream.size(), sweep_val, 1};
                            size_t off = (size_t)(sweep_off - (long)stream.size());
                            if (off > 0 && off + 1 < es.size()) ls.fault_inside_frame = true;
                            apply_fault(a, es, f, (long)stream.size(), last_fault);
                            fr[pc.frame].intact = false;
                        }
                        if (fr[pc.frame].intact && !es.empty())
                        {
                            fr[pc.frame].first = stream.size();
                            fr[pc.frame].last = stream.size() + es.size() - 1;
                        }
                    }
                    if (earlier && earlier < 4 && !es.empty() && stream.size() > 0 && &pc == &pieces[0]) es[0].restart = earlier;
                    stream.insert(stream.end(), es.begin(), es.end());
                }
                run_stream(variant, cap, stream, fr, last_fault, !faults, tr, ls);
                return stream.size();
            };
            size_t total = build_and_run(-1);
            if (sweep_kind >= 0)
            {
                // fault enumeration: the same traffic once per byte offset with a single fault of this kind there
                size_t lim = std::min<size_t>(total, 400);
                for (size_t off = 0; off < lim; off++)
                {
                    try
                    {
                        build_and_run((long)off);
                    }
                    catch (Violation &v)
                    {
                        v.detail = "[single " + std::string(F_NAME[sweep_kind]) + " at stream offset " + std::to_string(off) + "] " + v.detail;
                        throw;
                    }
                    stat("single_fault_placements");
                }
            }
            if (cap == 2) probe("cap_2");
            stat("bytes_delivered_to_receiver", ls.bytes);
            stat("packets_completed", ls.delivered);
            res.steps = ls.bytes;
            res.simtime = ls.bytes;
            if (!faults)
            {
                bool esc = false;
                for (auto &fm : frames)
                {
                    uint8_t crc = ref_crc8(fm.payload);
                    if (crc == a.START || crc == a.STOP || crc == a.STUB) esc = true;
                    for (uint8_t b : fm.payload)
                        if (b == a.START || b == a.STOP || b == a.STUB) esc = true;
                }
                res.nontrivial = esc;
            }
            else
                res.nontrivial = ls.fault_inside_frame && ls.later_frame;
            return res;
        }
    };

    // ---------------------------------------------------------------- exhaustive blocks
    // C05: every stream of length <= L over a reduced alphabet (start, stop, stuff, one escape code, a data byte, the
    //      CRC-completing byte) for one receiver and capacity; a run executes one block of consecutive stream indices.
    // C04: every payload of length <= 2 over all 256 byte values; a run executes one block of consecutive payload indices.
    struct BlockWorld : World
    {
        bool faults;
        explicit BlockWorld(bool f) : faults(f) {}
        const char *name() const override { return faults ? "short-streams-exhaustive-blocks" : "short-payloads-exhaustive-blocks"; }
        unsigned weight(Tier) const override { return 1; }
        Plan generate(Rng &r, Tier tier) override
        {
            Plan p;
            int variant = (int)r.below(VAR_N);
            if (faults)
            {
                int L = (int)r.range(1, tier == THOROUGH ? 9 : 7);
                uint64_t space = 1;
                for (int i = 0; i < L; i++) space *= 6;
                int cap = (int)r.range(2, 6);
                p.cfg = {variant, cap, L};
                p.ops.push_back({(int64_t)r.below(space)});
            }
            else
            {
                // cfg[2] != 0 (1 block in 60): instead of the block, one payload of several megabytes through the encoders that size
                // their own output, called on a thread with the usual 8 MiB stack; the frame is compared with the reference encoding
                p.cfg = {variant, (int64_t)r.below(ENC_N), r.chance(1, 60) ? (int64_t)r.range(1, 1000) : 0};
                p.ops.push_back({(int64_t)r.below(65536 + 256 + 1)});
            }
            return p;
        }
        std::string describe(const Plan &p) override
        {
            return std::string(VAR_NAME[mod(p.c(0), VAR_N)]) + (faults ? " cap=" + std::to_string(mod(p.c(1) - 2, 5) + 2) + " all streams of length " + std::to_string(mod(p.c(2) - 1, 9) + 1) + " from index " : " all payloads from index ") +
                   std::to_string(p.ops.empty() ? 0 : arg(p.ops[0], 0)) + " (block of " + (faults ? "3000" : "400") + ")";
        }
        Result execute(const Plan &p, Trace &tr) override
        {
            Result res;
            int variant = (int)mod(p.c(0), VAR_N);
            const Alphabet &a = alpha_of(variant);
            if (p.ops.empty()) return res;
            LinkStats ls;
            if (faults)
            {
                int cap = (int)mod(p.c(1) - 2, 5) + 2;
                int L = (int)mod(p.c(2) - 1, 9) + 1;
                uint64_t space = 1;
                for (int i = 0; i < L; i++) space *= 6;
                uint64_t first = (uint64_t)mod(arg(p.ops[0], 0), (int64_t)space);
                const int sym[6] = {a.START, a.STOP, a.STUB, a.C_START, 'a', -1};
                std::vector<FrameMeta> none;
                for (uint64_t idx = first; idx < space && idx < first + 3000; idx++)
                {
                    std::vector<Elem> stream;
                    uint64_t x = idx;
                    for (int i = 0; i < L; i++, x /= 6)
                    {
                        int sy = sym[x % 6];
                        stream.push_back(sy < 0 ? Elem{0, 1, -1, 0} : Elem{(uint8_t)sy, 0, -1, false});
                    }
                    try
                    {
                        run_stream(variant, cap, stream, none, (long)L - 1, false, tr, ls);
                    }
                    catch (Violation &v)
                    {
                        v.detail = "[exhaustive stream #" + std::to_string(idx) + " of length " + std::to_string(L) + "] " + v.detail;
                        throw;
                    }
                    stat("exhaustive_short_streams");
                }
                probe("exhaustive_block");
            }
            else if (p.c(2) != 0 && variant != VAR_LEGACY)
            {
                size_t n = (size_t)(4u << 20) + (size_t)mod(p.c(2), 1000) * 2099;
                Bytes pl(n);
                uint64_t x = (uint64_t)p.c(2) * 0x9E3779B97F4A7C15ull + 1;
                for (size_t i = 0; i < n; i += 8)
                {
                    uint64_t w = splitmix64(x);
                    for (size_t k = 0; k < 8 && i + k < n; k++) pl[i + k] = (uint8_t)(w >> (8 * k));
                }
                struct Job { const Bytes *pl; gstuff_context ctx; int enc; Bytes out; } job{&pl, ctx_of(variant), (int)mod(p.c(1), 2), {}};
                pthread_attr_t at;
                pthread_attr_init(&at);
                pthread_attr_setstacksize(&at, 8u << 20);
                pthread_t th;
                auto body = +[](void *q) -> void * {
                    Job *j = (Job *)q;
                    if (j->enc == 0) j->out = gstuffing(igris::buffer((const char *)j->pl->data(), j->pl->size()), j->ctx);
                    else
                    {
                        struct iovec v[2];
                        v[0].iov_base = (void *)j->pl->data();
                        v[0].iov_len = j->pl->size() / 3;
                        v[1].iov_base = (void *)(j->pl->data() + v[0].iov_len);
                        v[1].iov_len = j->pl->size() - v[0].iov_len;
                        j->out = gstuffing_v(v, 2, j->ctx);
                    }
                    return nullptr;
                };
                if (pthread_create(&th, &at, body, &job) != 0) violate("C04/harness", "pthread_create failed");
                pthread_join(th, nullptr);
                pthread_attr_destroy(&at);
                Bytes want = ref_encode(a, pl);
                if (job.out != want)
                    violate("C04/frame-bytes", "%s: a payload of %zu bytes is framed as %zu bytes that differ from the reference encoding (%zu bytes)", VAR_NAME[variant], n, job.out.size(), want.size());
                ls.bytes += want.size();
                probe("payload_of_megabytes");
            }
            else
            {
                int enc = (int)mod(p.c(1), ENC_N);
                uint64_t space = 65536 + 256 + 1;
                uint64_t first = (uint64_t)mod(arg(p.ops[0], 0), (int64_t)space);
                for (uint64_t idx = first; idx < space && idx < first + 400; idx++)
                {
                    Bytes pl;
                    if (idx >= 1 && idx <= 256) pl = {(uint8_t)(idx - 1)};
                    else if (idx > 256) pl = {(uint8_t)((idx - 257) >> 8), (uint8_t)((idx - 257) & 255)};
                    Bytes encd = real_encode(variant, enc, pl, {});
                    Bytes want = ref_encode(a, pl);
                    if (encd != want)
                        violate("C04/frame-bytes", "%s: payload %s is framed as %s, reference encoding %s", VAR_NAME[variant], hex(pl).c_str(), hex(encd).c_str(), hex(want).c_str());
                    std::vector<Elem> stream;
                    for (uint8_t b : encd) stream.push_back(Elem{b, 0, 0, false});
                    std::vector<FrameMeta> fr(1);
                    fr[0].payload = pl;
                    fr[0].first = 0;
                    fr[0].last = stream.size() - 1;
                    fr[0].intact = true;
                    try
                    {
                        run_stream(variant, (int)pl.size() + 2, stream, fr, -1, true, tr, ls);
                    }
                    catch (Violation &v)
                    {
                        v.detail = "[exhaustive payload " + hex(pl) + "] " + v.detail;
                        throw;
                    }
                    stat("exhaustive_short_payloads");
                }
                probe("exhaustive_block");
            }
            res.steps = ls.bytes;
            res.simtime = ls.bytes;
            res.nontrivial = true;
            return res;
        }
    };

    // ---------------------------------------------------------------- escape-code sweep (C05)
    // one corrupted frame per value of the byte that follows the stuffing byte: START data.. STUB <every value 0..255>
    // <byte completing the reference CRC> STOP, each followed by a well-formed frame. Only the alphabet's own escape
    // codes may lead to a delivery; everything else must be dropped, and the next frame must come through.
    struct EscapeSweepWorld : World
    {
        const char *name() const override { return "escape-code-sweep"; }
        unsigned weight(Tier) const override { return 1; }
        Plan generate(Rng &r, Tier) override
        {
            Plan p;
            p.cfg = {(int64_t)r.below(VAR_N), (int64_t)r.range(6, 12), (int64_t)r.below(5)};
            Op o = {OP_FRAME};
            int n = (int)r.below(4);
            for (int i = 0; i < n; i++) o.push_back((int64_t)('a' + r.below(26)));
            p.ops.push_back(o);
            return p;
        }
        std::string describe(const Plan &p) override { return std::string(VAR_NAME[mod(p.c(0), VAR_N)]) + " every value after the stuffing byte, " + plan_to_json(p); }
        Result execute(const Plan &p, Trace &tr) override
        {
            Result res;
            int variant = (int)mod(p.c(0), VAR_N);
            const Alphabet &a = alpha_of(variant);
            int cap = (int)mod(p.c(1) - 6, 10) + 6;
            Bytes lead;
            if (!p.ops.empty())
                for (size_t i = 1; i < p.ops[0].size() && i <= 3; i++) lead.push_back((uint8_t)('a' + mod(p.ops[0][i], 26)));
            LinkStats ls;
            for (int code = 0; code < 256; code++)
            {
                // hypothesis (cfg[2]) about what a wrong receiver makes of the pair: nothing (0), or one of the special bytes / the code itself
                int hypk = (int)mod(p.c(2, 0), 5);
                const uint8_t hyps[5] = {0, a.START, a.STOP, a.STUB, (uint8_t)(code & 255)};
                if (hypk == 2 && a.same()) hypk = 1;
                std::vector<Elem> stream;
                stream.push_back(Elem{a.START, 0, -1, 0});
                for (uint8_t b : lead) stream.push_back(Elem{b, 0, -1, 0});
                stream.push_back(Elem{a.STUB, 0, -1, 0});
                stream.push_back(Elem{(uint8_t)code, 0, -1, 0});
                stream.push_back(hypk == 0 ? Elem{0, 1, -1, 0} : Elem{hyps[hypk], 2, -1, 0});
                stream.push_back(Elem{a.STOP, 0, -1, 0});
                long last_fault = (long)stream.size() - 1;
                std::vector<FrameMeta> fr;
                for (int k = 0; k < 2; k++) // two frames: with start == stop the first one after a fault may be lost
                {
                    FrameMeta fm;
                    fm.payload = {(uint8_t)'o', (uint8_t)('k' + k)};
                    fm.intact = true;
                    fm.first = stream.size();
                    for (uint8_t b : ref_encode(a, fm.payload)) stream.push_back(Elem{b, 0, (int)fr.size(), 0});
                    fm.last = stream.size() - 1;
                    fr.push_back(fm);
                }
                try
                {
                    run_stream(variant, cap, stream, fr, last_fault, false, tr, ls);
                }
                catch (Violation &v)
                {
                    char t[8];
                    snprintf(t, sizeof t, "%02x", code & 255);
                    v.detail = std::string("[stuffing byte followed by ") + t + "] " + v.detail;
                    throw;
                }
                fault("escape_code_replaced");
            }
            probe("escape_code_sweep");
            res.steps = ls.bytes;
            res.simtime = ls.bytes;
            res.nontrivial = true;
            return res;
        }
    };
}

int main(int argc, char **argv)
{
    LinkWorld w(LINK_FAULTS != 0);
    BlockWorld bw(LINK_FAULTS != 0);
    Harness h;
    h.property = LINK_FAULTS ? "C05" : "C04";
    h.worlds = {&w, &bw};
    EscapeSweepWorld ew;
    if (LINK_FAULTS) h.worlds.push_back(&ew);
    if (LINK_FAULTS)
        h.real = {"igris/protocols/gstuff.cpp (gstuff_autorecv with both alphabets)", "igris/protocols/gstuff_v1/autorecv.c",
                  "igris/datastruct/sline.h", "igris/util/crc.h (igris_strmcrc8 inside the receivers)"};
    else
        h.real = {"igris/protocols/gstuff.cpp (gstuffing, gstuffing_v, vector overloads, gstuff_autorecv with both alphabets)",
                  "igris/protocols/gstuff_v1/gstuff.c", "igris/protocols/gstuff_v1/autorecv.c", "igris/datastruct/sline.h", "igris/util/crc.h"};
    h.stub = {"byte channel (delivers byte by byte; injects faults in the C05 configuration)", "sender tasks (payload generator)",
              "reference encoder / unescape / CRC-8 used as oracle"};
    return harness_main(h, argc, argv);
}
KIT_ASAN_OPTIONS()
