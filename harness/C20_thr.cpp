// C20 — system lock, wait queues, safe_queue under the serialising thread simulator (engine E1, DESIGN.md 4.1 / 5 C20).
// Real: igris/sync/syslock_mutex.cpp, igris/osinter/wait.cpp, wait-linux.cpp, igris/syncxx/event.h,
//       igris/event/safe_queue.h, igris/sync/semaphore.h (POSIX sem_t wrapper), igris/container/dlist.*
// Modelled: pthread mutex / condvar / semaphore (sim/thr), the scheduler. This TU includes no igris header.
#include "../sim/kit.h"
#include "../sim/thr/thrsim.h"
#include "C20_prog.h"

#include <deque>

using namespace kit;

namespace
{
    enum { P_LOCK = 0, P_WAIT = 1, P_QUEUE = 2 };
    enum { OP_SCHED = 0, OP_ACT = 1 };
    // actions: [OP_ACT, tid, kind, a, b]
    //  P_LOCK : kind 0 round(depth=a%3+1, save=b%3)        save: 0 none, 1 save/restore, 2 save, lock+unlock inside, restore
    //  P_WAIT : kind 0 wait(prio=a%2) ; 1 wake_one(wrapped=a%2) ; 2 wake_all(wrapped=a%2) ; 3 yield
    //  P_QUEUE: kind 0 push ; 1 pop ; 2 size

    struct Act
    {
        int kind;
        int64_t a, b;
    };

    struct World20 : World
    {
        int prog;
        explicit World20(int p) : prog(p) {}
        const char *name() const override { return prog == P_LOCK ? "syslock" : prog == P_WAIT ? "waitqueue" : "safe_queue"; }
        unsigned weight(Tier) const override { return prog == P_WAIT ? 3 : 2; }

        // ---------------------------------------------------------------- generation
        Plan generate(Rng &r, Tier tier) override
        {
            Plan p;
            int nt = (int)r.range(2, 4);
            bool longrun = r.chance(1, 40); // a long program: what only accumulates over many calls (counters, nodes left behind)
            int mode = r.chance(1, 4) ? 1 : 0;
            int memk = (int)r.pick<int64_t>({0, 0, 1, 2, 5, 11});
            // cfg[3]: safe_queue built from an initializer list of (cfg[3]-1) items
            // cfg[4] (wait queues, half of the runs): delegate waiters are in use; bit t+1: thread t's delegate passes the baton on
            bool delegates = prog == P_WAIT && r.chance(1, 2);
            p.cfg = {nt, mode, memk, prog == P_QUEUE && r.chance(1, 3) ? (int64_t)r.range(1, 5) : 0, delegates ? (int64_t)(1 + 2 * r.below(16)) : 0};
            p.cfg.push_back(delegates ? (int64_t)r.below(16) : 0); // cfg[5] bit t: thread t's delegate (unless it is a baton one) parks itself again, at the front, from inside its handler - once per park
            // schedule
            Op s = {OP_SCHED};
            if (mode == 0)
            {
                int style = (int)r.below(3); // 0 uniform, 1 sticky, 2 very sticky
                unsigned spurious_pm = (unsigned)r.pick<int64_t>({0, 0, 20, 80});
                int n = longrun ? 5000 : (tier == THOROUGH ? 900 : 500);
                for (int i = 0; i < n; i++)
                {
                    int64_t c;
                    if (r.below(1000) < spurious_pm) c = 1000 + (int64_t)r.below(4);
                    else if (style == 0) c = (int64_t)r.below(5);
                    else if (style == 1) c = r.chance(2, 3) ? 0 : (int64_t)r.below(5);
                    else c = r.chance(9, 10) ? 0 : (int64_t)r.below(5);
                    s.push_back(c);
                }
            }
            else
            {
                for (int i = 0; i < thr::MAXT; i++) s.push_back((int64_t)r.below(100));
                int d = (int)r.range(0, 4);
                for (int i = 0; i < d; i++) s.push_back((int64_t)r.range(1, 150));
            }
            p.ops.push_back(s);
            // per-thread actions
            int per = longrun ? (int)r.range(20, 40) : (int)r.range(1, tier == THOROUGH ? 8 : 5);
            if (prog == P_LOCK)
            {
                for (int t = 0; t < nt; t++)
                    for (int k = 0; k < per; k++)
                        p.ops.push_back({OP_ACT, t, 0, (int64_t)r.below(3), r.chance(1, 3) ? (int64_t)r.range(1, 2) : 0});
            }
            else if (prog == P_WAIT)
            {
                // roles are mixed: some threads mostly wait, some mostly wake; a third of the runs use two wait queues
                bool two_queues = r.chance(1, 3);
                for (int t = 0; t < nt; t++)
                {
                    bool mostly_wait = t == 0 ? true : (t == 1 ? false : r.chance(1, 2));
                    int n = (int)r.range(1, per + 1);
                    for (int k = 0; k < n; k++)
                    {
                        bool w = r.chance(mostly_wait ? 5 : 1, 6);
                        int64_t hq = two_queues ? (int64_t)r.below(2) : 0;
                        if (delegates && r.chance(1, 3)) p.ops.push_back({OP_ACT, t, 4, (r.chance(1, 4) ? 1 : 0) + (r.chance(1, 3) ? 2 : 0) + (r.chance(1, 6) ? 4 : 0), hq}); // bit 1: re-arm the handler while parked; bit 2: the waiter dies while parked
                        else if (w) p.ops.push_back({OP_ACT, t, 0, r.chance(1, 4) ? (int64_t)(1 + 2 * r.below(4)) : 0, hq});
                        else
                        {
                            int kind = r.chance(1, 5) ? 2 : (r.chance(1, 8) ? 3 : 1);
                            p.ops.push_back({OP_ACT, t, kind, (int64_t)r.below(2), hq});
                        }
                    }
                }
            }
            else
            {
                int pushes = 0, pops = 0;
                for (int t = 0; t < nt; t++)
                {
                    bool producer = t == 0 ? true : (t == 1 ? false : r.chance(1, 2));
                    int n = (int)r.range(1, per + 2);
                    for (int k = 0; k < n; k++)
                    {
                        if (r.chance(1, 6)) p.ops.push_back({OP_ACT, t, 2, 0, 0});
                        else if (producer) { p.ops.push_back({OP_ACT, t, 0, 0, 0}); pushes++; }
                        else if (pops < 12) { p.ops.push_back({OP_ACT, t, 1, 0, 0}); pops++; }
                    }
                }
                (void)pushes;
            }
            // interleave thread action lists in the plan order randomly (keeps per-thread order)
            return p;
        }

        std::string describe(const Plan &p) override
        {
            std::string s = "threads=" + std::to_string(mod(p.c(0) - 2, 3) + 2) + " sched=" + (p.c(1) % 2 ? "pct" : "choices") +
                            " mem_preempt_every=" + std::to_string(p.c(2)) + (prog == P_QUEUE && mod(p.c(3), 6) ? " queue{initializer_list of " + std::to_string(mod(p.c(3), 6) - 1) + "}" : "") + " actions:";
            static const char *kn[3][4] = {{"round", "round", "round", "round"}, {"wait", "wake_one", "wake_all", "yield"}, {"push", "pop", "size", "push"}};
            for (auto &o : p.ops)
            {
                if (arg(o, 0) != OP_ACT) continue;
                char b[96];
                snprintf(b, sizeof b, " T%lld:%s(%lld,%lld)", (long long)mod(arg(o, 1), mod(p.c(0) - 2, 3) + 2),
                         (prog == P_WAIT && mod(arg(o, 2), 5) == 4 ? "park_delegate" : kn[prog][mod(arg(o, 2), prog == P_QUEUE ? 3 : (prog == P_WAIT ? 5 : 1))]), (long long)arg(o, 3), (long long)arg(o, 4));
                s += b;
            }
            for (auto &o : p.ops)
                if (arg(o, 0) == OP_SCHED)
                {
                    s += " schedule[" + std::to_string(o.size() - 1) + "]:";
                    for (size_t i = 1; i < o.size() && i < 40; i++) s += " " + std::to_string(o[i]);
                    if (o.size() > 40) s += " ...";
                }
            return s;
        }

        // ---------------------------------------------------------------- run state shared with the hooks
        int nt = 0;
        // P_LOCK
        int owner = -1, odepth = 0;
        long counter = 0, expected_counter = 0;
        int saved_depth[thr::MAXT];
        // P_WAIT
        void *heads[2] = {nullptr, nullptr}; // two wait queues sharing the one system lock
        std::deque<int> mqs[2];             // model queues of parked waiter thread ids, front = next to wake
        int wait_head[thr::MAXT];           // which queue a thread is parking on / a wake addresses
        bool in_wait[thr::MAXT], enq[thr::MAXT], woken[thr::MAXT];
        long expect[thr::MAXT];
        int wait_prio[thr::MAXT];
        struct Pending { bool active = false, computed = false; int all = 0; long u = 0; } pend[thr::MAXT];
        bool finished[thr::MAXT];
        // delegate waiters (model entries 100 + id): selected-but-not-yet-run count, the future each must see, baton kind
        void *dlg[thr::MAXT];
        int dlg_sel[thr::MAXT], dlg_kind[thr::MAXT], dlg_repark[thr::MAXT];
        std::deque<long> dlg_expect[thr::MAXT]; // the futures of the wakes that selected the delegate and whose handler call is still to come, oldest first
        uint64_t dlg_wakes = 0, dlg_batons = 0, dlg_refresh = 0, dlg_rearmed = 0, dlg_died_parked = 0, dlg_reparked_from_handler = 0;
        long next_u = 1000;
        uint64_t wakes_with_victim = 0, wake_raced = 0;
        // P_QUEUE
        void *q = nullptr;
        int tokens = 0, preload = 0;
        long pushes_started = 0, pushes_finished = 0, pops_started = 0, pops_finished = 0;
        int nextseq[thr::MAXT];
        std::map<std::pair<int, int>, int> popped;
        int lastseq_seen[thr::MAXT][thr::MAXT]; // [consumer][producer]
        long size_lo[thr::MAXT], size_pf_entry[thr::MAXT], size_popfin_entry[thr::MAXT];

        void take(std::deque<int> &mq, long u)
        {
            int v = mq.front();
            mq.pop_front();
            if (v >= 100)
            {
                int id = v - 100;
                dlg_sel[id]++;
                dlg_expect[id].push_back(u);
                dlg_wakes++;
                // a baton delegate's handler wakes the next waiter of the same queue before the waker goes on
                if (dlg_kind[id] == 1 && !mq.empty()) { dlg_batons++; take(mq, 500000 + id); }
                // a handler that parks its waiter again at the front of the same queue (once per park): an unwait_all in progress
                // reaches it a second time, an unwait_one leaves it at the front
                if (dlg_kind[id] == 2 && dlg_repark[id] > 0) { dlg_repark[id]--; mq.push_front(v); dlg_reparked_from_handler++; }
                return;
            }
            woken[v] = true;
            expect[v] = u;
            if (!thr::blocked_on_condvar(v)) wake_raced++;
        }
        void compute_victims(int tid)
        {
            Pending &pd = pend[tid];
            pd.computed = true;
            std::deque<int> &mq = mqs[wait_head[tid]];
            if (mq.empty()) return;
            wakes_with_victim++;
            if (pd.all)
                while (!mq.empty()) take(mq, pd.u);
            else
                take(mq, pd.u);
        }

        Result execute(const Plan &p, Trace &tr) override;
    };

    World20 *W = nullptr; // the world whose run is in progress (hooks are plain C functions)

    Result World20::execute(const Plan &p, Trace &tr)
    {
        Result res;
        W = this;
        nt = (int)mod(p.c(0) - 2, 3) + 2;
        thr::Config cfg;
        cfg.sched_mode = (int)mod(p.c(1), 2);
        cfg.mem_preempt_every = (int)mod(p.c(2), 50);
        std::vector<std::vector<Act>> acts(nt);
        for (auto &o : p.ops)
        {
            if (arg(o, 0) == OP_SCHED && o.size() > 1)
            {
                if (cfg.sched_mode == 0) cfg.choices.insert(cfg.choices.end(), o.begin() + 1, o.end());
                else
                    for (size_t i = 1; i < o.size(); i++)
                        if ((int)i <= thr::MAXT) cfg.prio.push_back(o[i]);
                        else cfg.change.push_back(mod(o[i], 400));
            }
            else if (arg(o, 0) == OP_ACT)
                acts[mod(arg(o, 1), nt)].push_back({(int)arg(o, 2), arg(o, 3), arg(o, 4)});
        }
        // reset run state
        owner = -1; odepth = 0; counter = 0; expected_counter = 0;
        mqs[0].clear();
        mqs[1].clear();
        next_u = 1000; wakes_with_victim = 0; wake_raced = 0;
        tokens = 0; pushes_started = pushes_finished = pops_started = pops_finished = 0;
        popped.clear();
        for (int i = 0; i < thr::MAXT; i++)
        {
            in_wait[i] = enq[i] = woken[i] = finished[i] = false;
            wait_head[i] = 0;
            expect[i] = 0; pend[i] = Pending(); nextseq[i] = 0; saved_depth[i] = 0; wait_prio[i] = 0;
            for (int j = 0; j < thr::MAXT; j++) lastseq_seen[i][j] = -1;
        }
        heads[0] = prog == P_WAIT ? prog_head_new() : nullptr;
        heads[1] = prog == P_WAIT ? prog_head_new() : nullptr;
        dlg_wakes = dlg_batons = dlg_refresh = dlg_rearmed = dlg_died_parked = dlg_reparked_from_handler = 0;
        const bool delegates = prog == P_WAIT && mod(p.c(4, 0), 2) == 1;
        for (int i = 0; i < thr::MAXT; i++)
        {
            dlg_sel[i] = 0;
            dlg_expect[i].clear();
            dlg_kind[i] = (int)(mod(p.c(4, 0), 64) >> (i + 1)) & 1;
            if (dlg_kind[i] == 0 && ((mod(p.c(5, 0), 16) >> i) & 1)) dlg_kind[i] = 2;
            dlg_repark[i] = 0;
            dlg[i] = delegates && i < nt ? prog_delegate_new(i, dlg_kind[i]) : nullptr;
        }
        preload = prog == P_QUEUE ? (int)mod(p.c(3), 6) : 0;
        q = prog == P_QUEUE ? (preload ? prog_queue_new_preloaded(nt, preload - 1) : prog_queue_new()) : nullptr;
        if (preload)
        {
            // the preloaded items belong to pseudo producer `nt`; they were "pushed" before any thread started
            nextseq[nt] = preload - 1;
            tokens = preload - 1;
            pushes_started = pushes_finished = preload - 1;
            probe("queue_from_initializer_list");
        }

        std::vector<std::function<void()>> bodies;
        for (int t = 0; t < nt; t++)
        {
            bodies.push_back([this, t, &acts]() {
                for (auto &a : acts[t])
                {
                    if (prog == P_LOCK)
                    {
                        int depth = (int)mod(a.a, 3) + 1, save = (int)mod(a.b, 3);
                        thr::api_enter();
                        prog_lock_round(depth, save, &counter);
                        thr::api_exit();
                    }
                    else if (prog == P_WAIT)
                    {
                        int k = (int)mod(a.kind, 5);
                        if (k == 4)
                        {
                            if (!dlg[t]) continue;
                            thr::api_enter();
                            dlg[t] = prog_delegate_park(dlg[t], heads[mod(a.b, 2)], (int)mod(a.a, 8));
                            thr::api_exit();
                        }
                        else if (k == 0)
                        {
                            wait_head[t] = (int)mod(a.b, 2);
                            if (wait_head[t]) probe("second_wait_queue");
                            thr::api_enter();
                            {
                                // any non-zero priority is a priority (the callers in the tree pass 0 or WAIT_PRIORITY, the parameter is an int)
                                static const int PRIO[8] = {0, 1, 0, 2, 0, -1, 0, 7};
                                prog_wait(heads[wait_head[t]], PRIO[mod(a.a, 8)]);
                            }
                            thr::api_exit();
                        }
                        else if (k == 3)
                            thr::yield("yield");
                        else
                        {
                            long u = next_u++;
                            wait_head[t] = (int)mod(a.b, 2);
                            thr::api_enter();
                            prog_wake(heads[wait_head[t]], k == 2, (int)mod(a.a, 2), u);
                            thr::api_exit();
                        }
                    }
                    else
                    {
                        int k = (int)mod(a.kind, 3);
                        if (k == 0)
                        {
                            thr::api_enter();
                            prog_queue_push(q, t, nextseq[t]++);
                            thr::api_exit();
                            tokens++;
                        }
                        else if (k == 1)
                        {
                            // pop only when an item is certainly available (precondition of std::queue::front);
                            // never waits for a push that may depend on this thread (no harness-made deadlock)
                            int tries = 0;
                            while (tokens <= 0 && tries < 4)
                            {
                                thr::yield("no-token");
                                tries++;
                            }
                            if (tokens <= 0) continue;
                            tokens--;
                            thr::api_enter();
                            prog_queue_pop(q);
                            thr::api_exit();
                        }
                        else
                        {
                            thr::api_enter();
                            prog_queue_size(q);
                            thr::api_exit();
                        }
                    }
                }
                finished[t] = true;
            });
        }
        if (prog == P_WAIT)
        {
            // drain thread: when every other thread is finished or parked un-woken, wake everybody (wrapped unwait_all);
            // repeats until all are finished. Gives bounded liveness without demanding anything while wakes still flow.
            int dt = nt;
            bodies.push_back([this, dt]() {
                for (;;)
                {
                    auto quiescent = [this]() {
                        for (int t = 0; t < nt; t++)
                            if (!(finished[t] || (in_wait[t] && enq[t] && !woken[t]))) return false;
                        return true;
                    };
                    thr::block_until(quiescent, "quiescence");
                    bool all = true;
                    for (int t = 0; t < nt; t++)
                        if (!finished[t]) all = false;
                    if (all && mqs[0].empty() && mqs[1].empty()) break; // (delegates still parked are woken by one more round)
                    for (int hq = 0; hq < 2; hq++)
                    {
                        long u = next_u++;
                        wait_head[dt] = hq;
                        thr::api_enter();
                        prog_wake(heads[hq], 1, 1, u);
                        thr::api_exit();
                    }
                    stat("drains");
                }
                finished[dt] = true;
            });
        }
        thr::Hooks hooks;
        hooks.on_acquire = [this](int tid, int mid, int depth) {
            (void)mid;
            if (prog != P_WAIT || depth != 1) return;
            if (in_wait[tid] && !enq[tid])
            {
                // linearisation point of the park: first acquisition of the system lock inside the call
                enq[tid] = true;
                if (wait_prio[tid]) mqs[wait_head[tid]].push_front(tid);
                else mqs[wait_head[tid]].push_back(tid);
                thr::note("model-enqueue T%d prio=%d", tid, wait_prio[tid]);
            }
            else if (pend[tid].active && !pend[tid].computed)
                compute_victims(tid);
        };
        thr::RunResult rr = thr::run(cfg, bodies, tr, hooks);
        res.steps = rr.steps;
        res.simtime = rr.decisions;
        res.nontrivial = rr.overlap_switches > 0;
        if (rr.violation)
        {
            res.violation = true;
            res.sig = rr.sig;
            res.detail = rr.detail;
        }
        else
        {
            // end-of-run conservation checks (all threads finished)
            if (prog == P_LOCK)
            {
                if (counter != expected_counter)
                {
                    res.violation = true;
                    res.sig = "C20/syslock-lost-update";
                    res.detail = "shared counter " + std::to_string(counter) + " != " + std::to_string(expected_counter);
                }
                if (owner != -1)
                {
                    res.violation = true;
                    res.sig = "C20/syslock-owner-left";
                    res.detail = "owner record not cleared";
                }
            }
            if (prog == P_QUEUE)
            {
                unsigned long left = prog_queue_size_plain(q);
                if ((long)left != pushes_finished - pops_finished)
                {
                    res.violation = true;
                    res.sig = "C20/queue-conservation";
                    res.detail = "queue holds " + std::to_string(left) + " items, pushed " + std::to_string(pushes_finished) + " popped " + std::to_string(pops_finished);
                }
            }
            if (prog == P_WAIT)
                for (int i = 0; i < nt; i++)
                    if (dlg_sel[i] != 0)
                    {
                        res.violation = true;
                        res.sig = "C20/delegate-wake-lost";
                        res.detail = "delegate waiter " + std::to_string(i) + " was selected by a wake but its handler never ran";
                    }
            if (prog == P_WAIT && (!mqs[0].empty() || !mqs[1].empty()))
            {
                res.violation = true;
                res.sig = "C20/waiter-left-parked";
                res.detail = "model queue not empty at the end";
            }
        }
        // after an aborted run the structures may still reference frames of abandoned threads: leak them
        for (int i = 0; i < thr::MAXT; i++)
        {
            if (dlg[i] && !res.violation) prog_delegate_delete(dlg[i]);
            dlg[i] = nullptr;
        }
        if (dlg_wakes) probe("delegate_waiter_woken", dlg_wakes);
        if (dlg_batons) probe("handler_woke_next_waiter", dlg_batons);
        if (dlg_refresh) probe("delegate_refreshed_its_place", dlg_refresh);
        if (dlg_rearmed) probe("delegate_woken_through_a_handler_set_while_parked", dlg_rearmed);
        if (dlg_died_parked) probe("delegate_waiter_destroyed_while_parked", dlg_died_parked);
        if (dlg_reparked_from_handler) probe("delegate_parked_itself_again_from_its_handler", dlg_reparked_from_handler);
        if (heads[0] && !rr.violation) { prog_head_delete(heads[0]); prog_head_delete(heads[1]); }
        if (q && !rr.violation) prog_queue_delete(q);
        heads[0] = heads[1] = q = nullptr;
        stat("sync_events", rr.steps);
        stat("decisions", rr.decisions);
        stat("context_switches", rr.switches);
        stat("mem_accesses", rr.mem_accesses);
        if (rr.spurious) fault("spurious_condvar_wakeup", rr.spurious);
        if (rr.overlap_switches) probe("queue_contended", prog == P_QUEUE ? 1 : 0);
        if (wake_raced) probe("wake_raced_with_park", wake_raced);
        W = nullptr;
        return res;
    }

    void fail(const char *sig, const char *fmt, ...) __attribute__((format(printf, 2, 3)));
    void fail(const char *sig, const char *fmt, ...)
    {
        char buf[400];
        va_list ap;
        va_start(ap, fmt);
        vsnprintf(buf, sizeof buf, fmt, ap);
        va_end(ap);
        thr::report(sig, buf);
    }
}

// ---------------------------------------------------------------------- hooks called from C20_prog.cpp
extern "C"
{
    void h_locked(int level)
    {
        int t = thr::self();
        if (W->owner != -1 && W->owner != t)
            fail("C20/syslock-two-owners", "T%d holds the system lock (depth %d) while T%d acquired it", W->owner, W->odepth, t);
        W->owner = t;
        W->odepth++;
        if (W->odepth != level) fail("C20/syslock-depth", "depth record %d != nesting level %d", W->odepth, level);
        if (level == 3) probe("nested_depth3");
        W->expected_counter++;
    }
    void h_unlocking(int level)
    {
        int t = thr::self();
        if (W->owner != t) fail("C20/syslock-two-owners", "T%d unlocking but owner record says T%d", t, W->owner);
        W->expected_counter++;
        W->odepth--;
        if (W->odepth != level - 1) fail("C20/syslock-depth", "depth record %d != nesting level %d", W->odepth, level - 1);
        if (W->odepth == 0) W->owner = -1;
    }
    void h_saving(void)
    {
        int t = thr::self();
        if (W->owner != t) fail("C20/syslock-two-owners", "T%d saving but owner record says T%d", t, W->owner);
        W->saved_depth[t] = W->odepth;
        W->odepth = 0;
        W->owner = -1;
    }
    void h_saved(void)
    {
        // window in which the lock is released: the others must be able to enter
        thr::yield("save-window");
        probe("save_restore_window");
    }
    void h_restored(int counter)
    {
        int t = thr::self();
        if (W->owner != -1 && W->owner != t)
            fail("C20/syslock-two-owners", "T%d restored the system lock while T%d holds it", t, W->owner);
        W->owner = t;
        W->odepth = W->saved_depth[t];
        if (counter != W->odepth)
            fail("C20/syslock-restore-depth", "syslock_counter()=%d after restore, nesting depth was %d", counter, W->odepth);
        W->expected_counter++;
    }
    void h_wait_begin(int prio)
    {
        int t = thr::self();
        W->in_wait[t] = true;
        W->enq[t] = false;
        W->woken[t] = false;
        W->wait_prio[t] = prio;
        if (prio) probe("priority_waiter");
    }
    void h_wait_end(long fut)
    {
        int t = thr::self();
        if (!W->enq[t]) fail("C20/wait-returned-without-parking", "T%d returned from wait without ever taking the system lock", t);
        if (!W->woken[t])
            fail("C20/resumed-without-wake", "T%d resumed from the wait queue although no unwait selected it (future=%ld)", t, fut);
        if (fut != W->expect[t])
            fail("C20/wrong-future", "T%d resumed with future %ld, the wake that selected it carried %ld", t, fut, W->expect[t]);
        W->in_wait[t] = false;
        W->enq[t] = false;
        W->woken[t] = false;
    }
    void h_wake_begin(int all, int wrapped, long u)
    {
        int t = thr::self();
        W->pend[t].active = true;
        W->pend[t].computed = false;
        W->pend[t].all = all;
        W->pend[t].u = u;
        if (wrapped)
        {
            // the caller holds the system lock: the real list must have exactly the model's length
            for (int hq = 0; hq < 2; hq++)
            {
                unsigned real = prog_head_size_locked(W->heads[hq]);
                if (real != W->mqs[hq].size())
                    fail("C20/queue-length", "wait queue %d holds %u nodes, model says %u parked waiters", hq, real, (unsigned)W->mqs[hq].size());
            }
            W->compute_victims(t);
        }
    }
    void h_delegate_parking(int id, int prio, void *head)
    {
        // called under the system lock, right before the node is moved
        int hq = head == W->heads[1] ? 1 : 0;
        for (int q = 0; q < 2; q++)
            for (size_t i = 0; i < W->mqs[q].size(); i++)
                if (W->mqs[q][i] == 100 + id)
                {
                    W->mqs[q].erase(W->mqs[q].begin() + (long)i);
                    W->dlg_refresh++;
                    break;
                }
        if (prio) W->mqs[hq].push_front(100 + id);
        else W->mqs[hq].push_back(100 + id);
        W->dlg_repark[id] = W->dlg_kind[id] == 2 ? 1 : 0;
        thr::note("model-enqueue delegate %d prio=%d queue=%d", id, prio, hq);
    }
    void h_delegate_handler(int id, int which, int expected)
    {
        if (which != expected)
            fail("C20/delegate-stale-handler", "delegate waiter %d was woken through handler %d, its owner had set handler %d with waiter_delegate_init before the wake", id, which, expected);
        W->dlg_rearmed += which != 0;
    }
    void h_delegate_dying(int id)
    {
        // called under the system lock, right before the parked waiter object is destroyed: it leaves the line with it
        for (int q = 0; q < 2; q++)
            for (size_t i = 0; i < W->mqs[q].size(); i++)
                if (W->mqs[q][i] == 100 + id)
                {
                    W->mqs[q].erase(W->mqs[q].begin() + (long)i);
                    W->dlg_died_parked++;
                    thr::note("model-dequeue delegate %d (destroyed while parked)", id);
                    return;
                }
    }
    void h_delegate_woken(int id, long fut)
    {
        if (id < 0 || id >= thr::MAXT || W->dlg_sel[id] <= 0)
            fail("C20/delegate-woken-unselected", "the handler of delegate waiter %d ran although no wake selected it (woken twice, or woken while not parked); future=%ld", id, fut);
        W->dlg_sel[id]--;
        long want = W->dlg_expect[id].empty() ? -1 : W->dlg_expect[id].front();
        if (!W->dlg_expect[id].empty()) W->dlg_expect[id].pop_front();
        if (fut != want) fail("C20/wrong-future", "delegate waiter %d was woken with future %ld, the wake that selected it carried %ld", id, fut, want);
    }
    void h_wake_end(void)
    {
        int t = thr::self();
        W->pend[t].active = false;
    }
    void h_push_begin(int, int) { W->pushes_started++; }
    void h_push_end(int, int) { W->pushes_finished++; }
    void h_pop_begin(void) { W->pops_started++; }
    void h_pop_end(int prod, int seq)
    {
        int t = thr::self();
        W->pops_finished++;
        if (prod < 0 || prod >= W->nt + (W->preload ? 1 : 0) || seq < 0 || seq >= W->nextseq[prod])
            fail("C20/queue-invented-item", "popped item (%d,%d) was never pushed", prod, seq);
        if (++W->popped[{prod, seq}] > 1) fail("C20/queue-duplicate", "item (%d,%d) popped twice", prod, seq);
        if (seq <= W->lastseq_seen[t][prod])
            fail("C20/queue-reorder", "consumer T%d got item %d of producer %d after item %d", t, seq, prod, W->lastseq_seen[t][prod]);
        W->lastseq_seen[t][prod] = seq;
    }
    void h_size_begin(void)
    {
        int t = thr::self();
        W->size_pf_entry[t] = W->pushes_finished;
        W->size_popfin_entry[t] = W->pops_finished;
    }
    void h_size_end(unsigned long sz)
    {
        int t = thr::self();
        long lo = W->size_pf_entry[t] - W->pops_started;
        long hi = W->pushes_started - W->size_popfin_entry[t];
        if ((long)sz < lo || (long)sz > hi) fail("C20/queue-size", "size()=%lu outside [%ld,%ld]", sz, lo, hi);
    }
}

int main(int argc, char **argv)
{
    World20 wl(P_LOCK), ww(P_WAIT), wq(P_QUEUE);
    Harness h;
    h.property = "C20";
    h.worlds = {&wl, &ww, &wq};
    h.real = {"igris/sync/syslock_mutex.cpp", "igris/osinter/wait.cpp", "igris/osinter/wait-linux.cpp", "igris/syncxx/event.h",
              "igris/event/safe_queue.h", "igris/sync/semaphore.h (C++ wrapper over POSIX sem_t)", "igris/container/dlist.h+dlist.cpp",
              "libstdc++ std::mutex / std::recursive_mutex / std::condition_variable wrappers (call the modelled pthread functions)"};
    h.stub = {"pthread_mutex_*, pthread_cond_*, sem_* (fully modelled by sim/thr, never the real primitives inside a run)",
              "thread scheduler (seeded choice list / PCT priorities)", "spurious condvar wake-ups (injected)",
              "harness-native token counter and quiescence wait (no happens-before edge)"};
    return harness_main(h, argc, argv);
}
