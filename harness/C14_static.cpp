// C14 — fixed-capacity containers (engine E6, DESIGN.md 5 C14): static_vector<T,N>, static_string<N> and, in the second
// part (-DC14_TWIN), their twins in std_portable.h. The container objects are placement-constructed in exact-size
// SimAlloc blocks with a seed-chosen fill (ASan red zone right behind the object); the harness knows each object's
// element storage interval, so a construction that lands outside it (e.g. on the size member) is reported by the
// lifetime registry even when it stays inside the object.
#include "../sim/kit.h"
#include "../sim/simalloc.h"
#include "../sim/tracked.h"

#ifdef C14_TWIN
#include <igris/container/std_portable.h>
#define PARTNAME "std_portable-"
#else
#include <igris/container/static_string.h>
#include <igris/container/static_vector.h>
#define PARTNAME ""
#endif

#include <string>
#include <list>
#include <memory>
#include <vector>

using namespace kit;

namespace
{
    int val_of(int x) { return x; }
    int val_of(const tracked::T &t) { return t.value(); }
    // a handle / guard style element: copies are implicit (trivial), only the destructor is user-provided. Constructions
    // cannot be observed, so the oracle counts destructor calls that land inside a container's element storage: an
    // operation that removes k elements from a container must run exactly k of them there.
    struct Handle
    {
        int v;
        Handle(int x = 0) : v(x) {}
        ~Handle() { note(this); }
        static const char *zone_lo[2], *zone_hi[2];
        static long hits[2];
        static void note(const Handle *h)
        {
            for (int w = 0; w < 2; w++)
                if ((const char *)h >= zone_lo[w] && (const char *)h < zone_hi[w]) hits[w]++;
        }
    };
    const char *Handle::zone_lo[2] = {nullptr, nullptr}, *Handle::zone_hi[2] = {nullptr, nullptr};
    long Handle::hits[2] = {0, 0};
    int val_of(const Handle &h) { return h.v; }
    // the same idea as a union (a hand-written variant cell): a class type for the language, but not a "class" for type traits
    union UCell
    {
        int v;
        float as_float;
        UCell(int x = 0) : v(x) {}
        ~UCell() { Handle::note((const Handle *)(const void *)this); }
    };
    int val_of(const UCell &h) { return h.v; }
    // an element smaller and less aligned than a machine word (sizeof 2, alignof 2)
    struct Tiny
    {
        uint16_t v;
        Tiny(int x = 0) : v((uint16_t)x) {}
    };
    int val_of(const Tiny &t) { return t.v; }
    // a recursive value type that can be built from a list of itself: emplace_back(args) must construct T(args), not T{args}
    struct Nest
    {
        int v;
        std::vector<Nest> kids;
        Nest(int x = 0) : v(x) {}
        Nest(std::initializer_list<Nest> l) : v(-1), kids(l) {}
    };
    int val_of(const Nest &t) { return t.kids.empty() ? t.v : -100000 - (int)t.kids.size(); }
    // trivially copyable, but value-initialisation is not all-zero bytes (default member initialisers): resize() must create T{}
    struct Dflt
    {
        int v = 42;
        short mark = 7;
        Dflt() = default;
        Dflt(int x) : v(x) {}
    };
    static_assert(std::is_trivially_copyable<Dflt>::value, "Dflt must be trivially copyable");
    int val_of(const Dflt &t) { return t.mark == 7 ? t.v : -4242; }
    // an element with an extended alignment: every slot of the inline storage must be aligned for it
    struct alignas(32) Wide32
    {
        int v;
        Wide32(int x = 0) : v(x)
        {
            if ((uintptr_t)this % 32 != 0) kit::defer_violation("C14/element-misaligned", "an element of alignment 32 was constructed at an address that is %zu modulo 32", (size_t)((uintptr_t)this % 32));
        }
    };
    int val_of(const Wide32 &t) { return t.v; }
    template <class E> struct Watch
    {
        static void zone(int, const void *, size_t) {}
        static long hits(int) { return -1; }
    };
    template <> struct Watch<UCell>
    {
        static void zone(int w, const void *mem, size_t bytes) { Handle::zone_lo[w] = (const char *)mem; Handle::zone_hi[w] = (const char *)mem + bytes; Handle::hits[w] = 0; }
        static long hits(int w) { return Handle::hits[w]; }
    };
    template <> struct Watch<Handle>
    {
        static void zone(int w, const void *mem, size_t bytes) { Handle::zone_lo[w] = (const char *)mem; Handle::zone_hi[w] = (const char *)mem + bytes; Handle::hits[w] = 0; }
        static long hits(int w) { return Handle::hits[w]; }
    };

    // single-pass input iterator over the first `n` elements of a vector; all copies share the read position
    template <class E> struct SinglePass
    {
        struct State { const std::vector<E> *src; size_t pos, n; };
        typedef std::input_iterator_tag iterator_category;
        typedef E value_type;
        typedef std::ptrdiff_t difference_type;
        typedef const E *pointer;
        typedef const E &reference;
        std::shared_ptr<State> st; // null: the end iterator
        SinglePass() {}
        explicit SinglePass(std::shared_ptr<State> s) : st(std::move(s)) {}
        bool at_end() const { return !st || st->pos >= st->n; }
        const E &operator*() const { return (*st->src)[st->pos < st->n ? st->pos : st->src->size() - 1]; }
        SinglePass &operator++() { if (st && st->pos < st->n) st->pos++; return *this; }
        SinglePass operator++(int) { SinglePass c = *this; ++*this; return c; }
        bool operator==(const SinglePass &o) const { return at_end() == o.at_end(); }
        bool operator!=(const SinglePass &o) const { return !(*this == o); }
    };

    enum { S_PUSH, S_EMPLACE, S_RESIZE, S_ERASE, S_CLEAR, S_COPY_CTOR, S_MOVE_CTOR, S_COPY_ASSIGN, S_MOVE_ASSIGN, S_SELF_ASSIGN, S_CTOR_RANGE, S_CTOR_ILIST,
           S_FILL, S_ALGO, S_N };
    const char *S_NAME[] = {"push_back", "emplace_back", "resize", "erase", "clear", "copy_ctor", "move_ctor", "copy_assign", "move_assign", "self_assign",
                            "ctor(range)", "ctor(ilist)", "fill_past_capacity", "std-algorithm"};

    // one static_vector<E,N> object living in an exact-size simulated memory block
    template <class E, size_t N> struct Slot
    {
        typedef igris::static_vector<E, N> SV;
        void *mem = nullptr;
        SV *obj = nullptr;
        std::vector<int> m;
        void alloc() { mem = simalloc::raw_alloc(sizeof(SV)); }
        void zone()
        {
            // element storage = the first N * sizeof(E) bytes of the object (data() points at it)
            tracked::reg().zones.push_back({(const char *)mem, (const char *)mem + N * sizeof(E)});
        }
        void destroy()
        {
            if (obj) obj->~SV();
            obj = nullptr;
            m.clear();
        }
        void release()
        {
            destroy();
            if (mem) simalloc::raw_free(mem, sizeof(SV), "C14");
            mem = nullptr;
        }
    };

    template <class E, size_t N> void run_sv(const Plan &p, Trace &tr, Result &res)
    {
        typedef igris::static_vector<E, N> SV;
        Slot<E, N> s[2];
        bool overflow_offered = false;
        tracked::Registry &R = tracked::reg();
        for (int i = 0; i < 2; i++)
        {
            s[i].alloc();
            s[i].zone();
            Watch<E>::zone(i, s[i].mem, N * sizeof(E));
            R.guard = true;
            s[i].obj = new (s[i].mem) SV();
            R.guard = false;
        }
        auto truncate = [&](std::vector<int> &v) { if (v.size() > N) { v.resize(N); } };
        // (element types whose destructor is observable only) an operation that removes `gone` elements of container w ran
        // exactly `gone` destructors inside its element storage
        auto expect_destroyed = [&](int w, long before, size_t gone, const char *what, bool at_least = false) {
            long h = Watch<E>::hits(w);
            if (h < 0) return;
            if (gone) probe("handle_elements_destroyed");
            if (at_least ? (h - before < (long)gone) : (h - before != (long)gone))
                violate(std::string("C14/lifetime-destructor-count@") + what, "%s removed %zu elements of a static_vector<Handle,%zu>, but %ld destructors ran inside its element storage", what, gone, N, h - before);
        };
        auto check = [&](const char *when) {
            check_deferred();
            for (int w = 0; w < 2; w++)
            {
                SV &x = *s[w].obj;
                std::vector<int> &m = s[w].m;
                if (x.size() > N) violate(std::string("C14/over-capacity@") + when, "%s: static_vector<,%zu> reports size %zu", when, N, x.size());
                if (x.size() != m.size()) violate(std::string("C14/size@") + when, "%s: size()=%zu, reference (truncated to %zu) has %zu", when, x.size(), N, m.size());
                if (x.room() != N - m.size()) violate(std::string("C14/room@") + when, "%s: room()=%zu, expected %zu", when, x.room(), N - m.size());
                if ((const char *)x.data() != (const char *)s[w].mem) violate("C14/harness", "element storage is not at the start of the object");
                size_t k = 0;
                for (auto it = x.begin(); it != x.end(); ++it, ++k)
                {
                    int got = val_of(*it);
                    check_deferred();
                    if (got != m[k]) violate(std::string("C14/sequence@") + when, "%s: element %zu is %d, reference has %d", when, k, got, m[k]);
                }
                if (k != m.size()) violate(std::string("C14/sequence@") + when, "%s: begin()..end() spans %zu elements, reference %zu", when, k, m.size());
                if (!m.empty() && (val_of(x.front()) != m.front() || val_of(x.back()) != m.back() || val_of(x[m.size() - 1]) != m.back()))
                    violate(std::string("C14/front-back@") + when, "%s: front()/back()/operator[] differ from the reference", when);
#ifndef C14_TWIN
                {
                    // the const half of the interface
                    const SV &cx = x;
                    size_t q = 0;
                    for (auto it = cx.begin(); it != cx.end(); ++it, ++q)
                        if (q < m.size() && val_of(*it) != m[q]) violate(std::string("C14/sequence@") + when, "%s: const iteration: element %zu differs from the reference", when, q);
                    if (q != m.size() || cx.data() != x.data()) violate(std::string("C14/sequence@") + when, "%s: const begin()..end() spans %zu elements, reference %zu", when, q, m.size());
                    if (!m.empty() && (val_of(cx.front()) != m.front() || val_of(cx.back()) != m.back()))
                        violate(std::string("C14/front-back@") + when, "%s: const front()/back() differ from the reference", when);
                }
#else
                {
                    // the twin's const accessors (its const begin()/end() are covered by the range-for of the algorithms it supports)
                    const SV &cx = x;
                    if (!m.empty() && (val_of(cx.front()) != m.front() || val_of(cx.back()) != m.back() || val_of(cx[0]) != m.front() || val_of(cx[m.size() - 1]) != m.back()))
                        violate(std::string("C14/front-back@") + when, "%s: const front() / back() / operator[] of the std_portable static_vector differ from the reference", when);
                    if (cx.size() != m.size()) violate(std::string("C14/size@") + when, "%s: const size() differs", when);
                }
#endif
            }
            check_deferred();
        };
        check("init");
        for (auto &o : p.ops)
        {
            int k = (int)mod(arg(o, 0), S_N);
            int w = (int)mod(arg(o, 1), 2), u = 1 - w;
            SV &x = *s[w].obj;
            std::vector<int> &mx = s[w].m;
            int val = (int)mod(arg(o, 4), 1000);
            switch (k)
            {
            case S_PUSH:
            case S_EMPLACE:
            {
                E e(val);
                E e_rv(val); // (handed over as an rvalue in a third of the pushes; built before the storage guard is set)
                if (mx.size() == N) { overflow_offered = true; probe("push_when_full"); fault("input_beyond_capacity"); }
                // fault: the element's constructor throws while it is being appended - the container must be unchanged
                bool boom = std::is_same<E, tracked::T>::value && mod(arg(o, 3), 7) == 0;
                bool thrown = false;
                R.guard = true;
                if (boom) R.throw_after = 1;
                try
                {
                    if (k == S_PUSH && mod(arg(o, 2), 3) == 2) x.push_back(std::move(e_rv)); // an rvalue
                    else if (k == S_PUSH) x.push_back(e);
                    else if (mod(arg(o, 2), 2)) x.emplace_back(val);
                    else x.emplace_back(e); // a named (non-const) object: it is copied, the caller keeps its value
                }
                catch (const tracked::Boom &)
                {
                    thrown = true;
                    probe("append_with_throwing_constructor");
                }
                R.throw_after = 0;
                R.guard = false;
                if (val_of(e) != val) violate("C14/argument-modified", "the object passed to %s as an lvalue holds %d afterwards, it held %d (it was moved from instead of copied)", S_NAME[k], val_of(e), val);
                if (!thrown) { mx.push_back(val); truncate(mx); }
                break;
            }
            case S_FILL:
            {
                // push until the container is full and then two more (large capacities are only reached this way)
                size_t todo = N - mx.size() + 2;
                overflow_offered = true;
                probe("push_when_full");
                fault("input_beyond_capacity");
                for (size_t q = 0; q < todo; q++)
                {
                    E e(val + (int)q); // the harness' own temporary: constructed before the guard is set
                    R.guard = true;
                    if (q & 1) x.emplace_back(val + (int)q);
                    else x.push_back(e);
                    R.guard = false;
                    if (mx.size() < N) mx.push_back(val + (int)q);
                }
                if (N >= 200) probe("capacity_256_filled");
                break;
            }
            case S_RESIZE:
            {
                size_t n = (size_t)mod(arg(o, 2), 2 * N + 2);
                if (mod(arg(o, 3), 20) == 13)
                {
                    // a request far beyond any capacity: size() - 1 of an empty container, a count with more than 31 / 32 bits
                    static const size_t huge[5] = {(size_t)-1, ((size_t)1 << 32) + 1, ((size_t)1 << 31) + 5, (size_t)-1 / 2 + 1, ((size_t)1 << 32)};
                    n = huge[mod(arg(o, 2), 5)];
                    probe("resize_to_a_count_beyond_32_bits");
                }
                if (n > N) { overflow_offered = true; probe("resize_beyond_N"); fault("input_beyond_capacity"); }
                long h0 = Watch<E>::hits(w);
                size_t old = mx.size();
                R.guard = true;
                x.resize(n);
                R.guard = false;
                mx.resize(std::min(n, N), val_of(E())); // new elements are value-initialised
                if (mx.size() <= old) expect_destroyed(w, h0, old - mx.size(), "resize");
                break;
            }
            case S_ERASE:
            {
#ifndef C14_TWIN
                size_t a = (size_t)mod(arg(o, 2), (int64_t)mx.size() + 1), b = (size_t)mod(arg(o, 3), (int64_t)mx.size() + 1);
                if (a > b) std::swap(a, b);
                long h0e = Watch<E>::hits(w);
                R.guard = true;
                x.erase(x.begin() + a, x.begin() + b);
                R.guard = false;
                expect_destroyed(w, h0e, b - a, "erase", true); // at least the removed ones (an implementation may also re-create the shifted tail)
                mx.erase(mx.begin() + a, mx.begin() + b);
                probe("erase");
#endif
                break;
            }
            case S_ALGO:
            {
                // handed to the standard library: begin()/end() are random-access iterators over the live elements
                // (static_vector.h only: the twin's non-const end() hands out a const_iterator, which no algorithm pairs with begin())
#ifndef C14_TWIN
                size_t n0 = mx.size();
                int val3 = (int)mod(arg(o, 4), 1000);
                if (val3 % 4 == 3)
                {
                    // the two containers exchanged the way generic code does it (swap found by argument-dependent lookup, std::swap otherwise)
                    using std::swap;
                    swap(*s[0].obj, *s[1].obj);
                    std::swap(s[0].m, s[1].m);
                    if (s[0].m.size() != s[1].m.size()) probe("containers_of_different_size_swapped");
                }
                else if (val3 % 3 == 0) { std::reverse(x.begin(), x.end()); std::reverse(mx.begin(), mx.end()); }
                else if (val3 % 3 == 1 && n0)
                {
                    size_t k2 = (size_t)mod(arg(o, 2), (int64_t)n0);
                    std::rotate(x.begin(), x.begin() + k2, x.end());
                    std::rotate(mx.begin(), mx.begin() + k2, mx.end());
                }
                else
                {
                    long a = 0, b = 0;
                    for (const E &e : x) a += val_of(e);
                    for (int e : mx) b += e;
                    if (a != b || (size_t)std::distance(x.begin(), x.end()) != n0) violate("C14/std-algorithm", "range-for / std::distance over the container give sum %ld over %td elements, the reference %ld over %zu", a, std::distance(x.begin(), x.end()), b, n0);
                }
                probe("handed_to_a_standard_algorithm");
#endif
                break;
            }
            case S_CLEAR:
            {
                long h0 = Watch<E>::hits(w);
                x.clear();
                expect_destroyed(w, h0, mx.size(), "clear");
                mx.clear();
                break;
            }
            case S_COPY_CTOR:
            case S_MOVE_CTOR:
            {
                { long h0 = Watch<E>::hits(u); size_t had = s[u].m.size(); s[u].destroy(); expect_destroyed(u, h0, had, "destruction"); }
                R.guard = true;
                if (k == S_COPY_CTOR) s[u].obj = new (s[u].mem) SV(x);
                else s[u].obj = new (s[u].mem) SV(std::move(x));
                R.guard = false;
                s[u].m = mx;
                if (k == S_MOVE_CTOR)
                {
                    // what the source holds after a move is not specified: take its word for the size, keep checking bounds and lifetimes
                    check_deferred();
                    if (x.size() > mx.size()) violate("C14/moved-from-grew", "moved-from static_vector reports more elements than it had");
                    if (x.size() == 0) mx.clear();
                    else if (std::is_same<E, tracked::T>::value) mx.assign(x.size(), -777);
                }
                break;
            }
            case S_COPY_ASSIGN:
            case S_MOVE_ASSIGN:
                if (!s[u].m.empty()) probe("assign_over_nonempty");
                R.guard = true;
                if (k == S_COPY_ASSIGN) *s[u].obj = x;
                else *s[u].obj = std::move(x);
                R.guard = false;
                s[u].m = mx;
                if (k == S_MOVE_ASSIGN)
                {
                    check_deferred();
                    if (x.size() > mx.size()) violate("C14/moved-from-grew", "moved-from static_vector reports more elements than it had");
                    if (x.size() == 0) mx.clear();
                    else if (std::is_same<E, tracked::T>::value) mx.assign(x.size(), -777);
                }
                break;
            case S_SELF_ASSIGN:
            {
                SV &alias = x;
                R.guard = true;
                x = alias;
                R.guard = false;
                probe("self_assign");
                break;
            }
            case S_CTOR_RANGE:
            {
                size_t cnt = (size_t)mod(arg(o, 2), 2 * N + 1);
                std::vector<E> src;
                std::vector<int> msrc;
                for (size_t i = 0; i < cnt; i++) { src.emplace_back(val + (int)i); msrc.push_back(val + (int)i); }
                if (cnt > N) { overflow_offered = true; probe("ctor_more_than_N_elements"); fault("input_beyond_capacity"); }
                if (cnt == 2 * N) probe("ctor_2N_elements");
                { long h0 = Watch<E>::hits(u); size_t had = s[u].m.size(); s[u].destroy(); expect_destroyed(u, h0, had, "destruction"); }
                R.guard = true;
#ifdef C14_TWIN
                // the twin has no iterator-range constructor: fill through push_back, as igris' own vector -> static_vector test does
                s[u].obj = new (s[u].mem) SV();
                for (size_t i = 0; i < cnt; i++) s[u].obj->push_back(src[i]);
#else
                int style = (int)mod(arg(o, 3), 5);
                if (style == 0) s[u].obj = new (s[u].mem) SV(src.data(), src.data() + cnt);
                else if (style == 3)
                {
                    // the range of a read-only array: two pointers to const
                    const E *first = src.data(), *last = src.data() + cnt;
                    s[u].obj = new (s[u].mem) SV(first, last);
                    probe("ctor_from_pointers_to_const");
                }
                else if (style == 4) s[u].obj = new (s[u].mem) SV(src.cbegin(), src.cend());
                else if (style == 1)
                {
                    R.guard = false;
                    std::list<E> lst(src.begin(), src.end());
                    R.guard = true;
                    s[u].obj = new (s[u].mem) SV(lst.begin(), lst.end());
                    R.guard = false;
                    probe("ctor_from_bidirectional_iterators");
                }
                else
                {
                    // a single-pass source (a reader draining a queue): every copy of the iterator advances the same source
                    R.guard = false;
                    src.emplace_back(-7777); // what an exhausted reader would hand out; not part of the range
                    R.guard = true;
                    auto st = std::make_shared<typename SinglePass<E>::State>(typename SinglePass<E>::State{&src, 0, cnt});
                    s[u].obj = new (s[u].mem) SV(SinglePass<E>(st), SinglePass<E>());
                    probe("ctor_from_single_pass_iterators");
                }
#endif
                R.guard = false;
                s[u].m = msrc;
                truncate(s[u].m);
                break;
            }
            case S_CTOR_ILIST:
            {
#ifndef C14_TWIN
                int which = (int)mod(arg(o, 2), 3);
                std::initializer_list<E> l0 = {};
                std::initializer_list<E> l2 = {E(val), E(val + 1)};
                std::initializer_list<E> l5 = {E(val), E(val + 1), E(val + 2), E(val + 3), E(val + 4)};
                const std::initializer_list<E> &il = which == 0 ? l0 : which == 1 ? l2 : l5;
                if (il.size() > N) { overflow_offered = true; probe("ctor_more_than_N_elements"); fault("input_beyond_capacity"); }
                { long h0 = Watch<E>::hits(u); size_t had = s[u].m.size(); s[u].destroy(); expect_destroyed(u, h0, had, "destruction"); }
                R.guard = true;
                s[u].obj = new (s[u].mem) SV(il);
                R.guard = false;
                // the list is the caller's (a named list may build several containers): its elements keep their values
                for (size_t i = 0; i < il.size(); i++)
                    if (val_of(il.begin()[i]) != val + (int)i)
                        violate("C14/argument-modified", "element %zu of the initializer list holds %d after a static_vector was built from it, it held %d (it was moved from instead of copied)", i, val_of(il.begin()[i]), val + (int)i);
                s[u].m.clear();
                for (size_t i = 0; i < il.size(); i++) s[u].m.push_back(val + (int)i);
                truncate(s[u].m);
                probe("ctor_ilist");
#endif
                break;
            }
            }
            tr.ev("%c.%s -> %zu/%zu of %zu", w ? 'B' : 'A', S_NAME[k], s[0].m.size(), s[1].m.size(), N);
            check(S_NAME[k]);
        }
        for (int w = 0; w < 2; w++)
        {
            long h0 = Watch<E>::hits(w);
            size_t had = s[w].m.size();
            s[w].release();
            expect_destroyed(w, h0, had, "destruction");
        }
        check_deferred();
        res.nontrivial = overflow_offered;
    }

    // FULL: all six capacities (1, 2, 3, 4, 8, 256); otherwise three of them (the extra element types: build time)
    template <class E, bool FULL = true> struct SVWorld : World
    {
        const char *nm;
        bool tr_;
        SVWorld(const char *n, bool t) : nm(n), tr_(t) {}
        const char *name() const override { return nm; }
        unsigned weight(Tier) const override { return tr_ ? 4 : 2; }
        Plan generate(Rng &r, Tier tier) override
        {
            Plan p;
            int64_t nsel = r.chance(1, 12) ? 5 : (int64_t)r.below(5);
            p.cfg = {(int64_t)r.below(4), (int64_t)r.below(2), nsel};
            int n = (int)r.range(3, tier == THOROUGH ? 80 : 36);
            if (r.chance(1, 40)) n *= 25; // a long history: what only accumulates over hundreds or thousands of operations
            if (nsel == 5) n = (int)r.range(3, 14); // the big capacity is expensive to compare after every step
            for (int i = 0; i < n; i++)
            {
                int64_t k = r.chance(2, 5) ? (r.chance(1, 2) ? S_PUSH : S_EMPLACE) : (int64_t)r.below(S_N);
                if (nsel == 5 && r.chance(1, 3)) k = S_FILL;
                p.ops.push_back({k, (int64_t)r.below(2), (int64_t)r.below(20), (int64_t)r.below(20), (int64_t)r.below(1000)});
            }
            return p;
        }
        std::string describe(const Plan &p) override
        {
            static const int NS[] = {1, 2, 3, 4, 8, 256}, NR[] = {1, 3, 8};
            std::string s = "N=" + std::to_string(FULL ? NS[mod(p.c(2), 6)] : NR[mod(p.c(2), 6) / 2]) + " fill=" + std::to_string(mod(p.c(0), 4)) + ":";
            for (auto &o : p.ops) s += std::string(" ") + (arg(o, 1) % 2 ? "B." : "A.") + S_NAME[mod(arg(o, 0), S_N)] + "(" + std::to_string(arg(o, 2)) + "," + std::to_string(arg(o, 3)) + ")";
            return s;
        }
        Result execute(const Plan &p, Trace &tr) override
        {
            Result res;
            simalloc::st().reset((int)p.c(0), p.c(1) != 0);
            tracked::reg().reset("C14");
            if constexpr (FULL)
            {
                switch ((int)mod(p.c(2), 6))
                {
                case 0: run_sv<E, 1>(p, tr, res); break;
                case 1: run_sv<E, 2>(p, tr, res); break;
                case 2: run_sv<E, 3>(p, tr, res); break;
                case 3: run_sv<E, 4>(p, tr, res); break;
                case 4: run_sv<E, 8>(p, tr, res); break;
                default: run_sv<E, 256>(p, tr, res); break; // the size counter needs more than one byte
                }
            }
            else
            {
                switch ((int)mod(p.c(2), 6) / 2)
                {
                case 0: run_sv<E, 1>(p, tr, res); break;
                case 1: run_sv<E, 3>(p, tr, res); break;
                default: run_sv<E, 8>(p, tr, res); break;
                }
            }
            if (tr_) tracked::check_balance();
            if (simalloc::live_blocks() != 0) violate("C14/harness", "simulated memory not released");
            return res;
        }
    };

    // ---------------------------------------------------------------- static_string<N>
    enum { T_CTOR_CSTR, T_PUSH, T_CSTR, T_CTOR_PTR_N, T_CLEAR, T_PLUS_EQ, T_COPY, T_SPLIT, T_N };
    template <size_t N> void run_ss(const Plan &p, Trace &tr, Result &res)
    {
        typedef igris::static_string<N> SS;
        void *mem = simalloc::raw_alloc(sizeof(SS));
        SS *x = new (mem) SS();
        std::string m;
        bool overflow_offered = false;
        auto check = [&](const char *when) {
            if (x->size() > N) violate(std::string("C14/string-over-capacity@") + when, "%s: static_string<%zu> reports size %zu", when, N, x->size());
            if (x->size() != m.size()) violate(std::string("C14/string-size@") + when, "%s: size()=%zu, reference (truncated to %zu) has %zu", when, x->size(), N, m.size());
            if (x->room() != N - m.size()) violate(std::string("C14/string-room@") + when, "%s: room()=%zu expected %zu", when, x->room(), N - m.size());
            const char *c = x->c_str();
            if (c < (const char *)mem || c + m.size() + 1 > (const char *)mem + sizeof(SS)) violate("C14/string-c_str-outside", "c_str() does not lie inside the object");
            if (c[m.size()] != 0 || memcmp(c, m.data(), m.size()) != 0) violate(std::string("C14/string-content@") + when, "%s: c_str() is '%.*s', reference '%s'", when, (int)m.size(), c, m.c_str());
            if ((size_t)(x->end() - x->begin()) != m.size()) violate(std::string("C14/string-size@") + when, "%s: begin()..end() spans %td chars", when, x->end() - x->begin());
        };
        check("init");
        for (auto &o : p.ops)
        {
            int k = (int)mod(arg(o, 0), T_N);
            int val = (int)mod(arg(o, 4), 1000);
            switch (k)
            {
            case T_CTOR_CSTR:
            case T_CTOR_PTR_N:
            {
                size_t len = (size_t)mod(arg(o, 2), 2 * N + 1);
                // the source lives in an exact-size heap block: reading past its terminator is caught too
                char *src = (char *)simalloc::raw_alloc(len + 1);
                for (size_t i = 0; i < len; i++)
                {
                    uint64_t z = (uint64_t)val * 1000003 + i;
                    uint64_t h = splitmix64(z);
                    src[i] = (val & 1) ? "abcdxy"[h % 6] : (char)('a' + h % 26); // small alphabet: many short tokens for split
                    if (val % 8 == 3) src[i] = (i & 1) ? (char)('a' + h % 2) : 'x'; // one-letter tokens: more tokens than a split result holds
                }
                src[len] = 0;
                if (len > N) { overflow_offered = true; probe("ctor_more_than_N_elements"); fault("input_beyond_capacity"); }
                if (len == 2 * N) probe("ctor_2N_elements");
                x->~SS();
#ifdef C14_TWIN
                // a count far beyond the source (npos handed on as a length, a 33-bit count): legal as long as the source holds at
                // least N characters, the prefix that fits is kept
                static const size_t huge[4] = {(size_t)-1, (size_t)-1 / 2 + 1, ((size_t)1 << 32) + 3, (size_t)-2};
                if (k == T_CTOR_PTR_N && len >= N && val % 3 == 0) { x = new (mem) SS(src, huge[(val / 3) % 4]); probe("count_near_SIZE_MAX"); }
                else if (k == T_CTOR_PTR_N) x = new (mem) SS(src, len);
                else x = new (mem) SS(src);
#else
                x = new (mem) SS(src);
#endif
                m.assign(src, std::min(len, N));
                simalloc::raw_free(src, len + 1, "C14");
                break;
            }
            case T_PUSH:
                if (m.size() == N) { overflow_offered = true; probe("push_when_full"); fault("input_beyond_capacity"); }
            {
                // every seventh pushed character is a zero byte: a character like any other for push_back, size() and copies
                char pc = val % 7 == 0 ? '\0' : (char)('A' + val % 26);
                if (pc == 0) probe("zero_byte_pushed");
                x->push_back(pc);
                if (m.size() < N) m.push_back(pc);
            }
                break;
            case T_CSTR:
                break;
            case T_CLEAR:
#ifdef C14_TWIN
                x->clear();
                m.clear();
#endif
                break;
            case T_PLUS_EQ:
#ifdef C14_TWIN
                if (m.size() == N) { overflow_offered = true; probe("push_when_full"); }
                if (val % 3 == 0)
                {
                    // the result of += used as the string itself: a chain of appends, and a member call on the result
                    ((*x += (char)('0' + val % 10)) += 'q').push_back('r');
                    for (char ch : {(char)('0' + val % 10), 'q', 'r'}) if (m.size() < N) m.push_back(ch);
                    probe("result_of_plus_equals_used");
                    break;
                }
                *x += (char)('0' + val % 10);
                if (m.size() < N) m.push_back((char)('0' + val % 10));
#endif
                break;
            case T_SPLIT:
            {
#ifdef C14_TWIN
                // split into a static_vector<static_string<4>, 3>: more tokens than 3 and tokens longer than 4 must be
                // dropped / cut, never written outside the result
                char delim = (char)('a' + val % 4);
                if (val % 5 == 4) { delim = '\0'; probe("split_at_zero_bytes"); } // records separated by NUL: the string carries its own length
                else if (val % 2)
                { // the commonest of a..d in the string: as many tokens as this string can give
                    size_t cnt[4] = {0, 0, 0, 0}, best = 0;
                    for (char ch : m) if (ch >= 'a' && ch <= 'd') cnt[ch - 'a']++;
                    for (size_t q = 1; q < 4; q++) if (cnt[q] > cnt[best]) best = q;
                    delim = (char)('a' + best);
                }
                auto parts = x->template split<3, 4>(delim);
                std::vector<std::string> want;
                size_t i = 0;
                while (i < m.size())
                {
                    while (i < m.size() && m[i] == delim) i++;
                    if (i >= m.size()) break;
                    size_t st = i;
                    while (i < m.size() && m[i] != delim) i++;
                    want.push_back(m.substr(st, std::min<size_t>(i - st, 4)));
                    if (i - st > 4) { overflow_offered = true; probe("split_token_longer_than_capacity"); }
                }
                if (want.size() > 3) { overflow_offered = true; probe("split_more_tokens_than_capacity"); want.resize(3); }
                if (parts.size() != want.size()) violate("C14/split-count", "split gives %zu tokens, expected %zu (first 3 of the runs of non-delimiter characters)", parts.size(), want.size());
                for (size_t k2 = 0; k2 < want.size(); k2++)
                {
                    if (parts[k2].size() > 4) violate("C14/string-over-capacity@split", "split token %zu holds %zu characters in a static_string<4>", k2, parts[k2].size());
                    if (want[k2] != std::string(parts[k2].c_str(), parts[k2].size())) violate("C14/split-content", "split token %zu is '%s', expected '%s'", k2, parts[k2].c_str(), want[k2].c_str());
                }
                probe("split");
#endif
                break;
            }
            case T_COPY:
            {
                // implicit copy: a bitwise copy of a well-formed string is well-formed
                SS c(*x);
                if (c.size() != m.size() || memcmp(c.c_str(), m.data(), m.size()) != 0) violate("C14/string-copy", "a copy holds %zu characters, the original %zu; or the characters differ", c.size(), m.size());
                SS d;
                d = *x;
                if (d.size() != m.size() || memcmp(d.c_str(), m.data(), m.size()) != 0) violate("C14/string-copy", "a copy-assigned string holds %zu characters, the original %zu; or the characters differ", d.size(), m.size());
                break;
            }
            }
            tr.ev("op %d -> %zu of %zu", k, m.size(), N);
            check("after-op");
            check_deferred();
        }
        x->~SS();
        simalloc::raw_free(mem, sizeof(SS), "C14");
        check_deferred();
        res.nontrivial = overflow_offered;
    }
    // capacities beyond 16 bits: static_vector<uint8_t, 70000> and static_string<70000> filled past their capacity
#ifndef C14_TWIN
    // ---------------------------------------------------------------- static_vector as a base class
    // A device class derives from its sample buffer and has a virtual base: with an over-aligned element type the container
    // object ends in tail padding, where the compiler places the virtual base (it is constructed before the container base).
    // Whatever the container's members do, they stay inside the container's own bytes.
    struct NamedBase
    {
        int id = 0;
        NamedBase() : id(42) {}
    };
    template <class SV> struct ChannelOf : SV, virtual NamedBase
    {
    };
    struct alignas(16) Wide16
    {
        int v;
        Wide16(int x = 0) : v(x) {}
    };
    template <class E, size_t N> void run_channel(const Plan &p, Trace &tr, Result &res, const char *what)
    {
        typedef igris::static_vector<E, N> SV;
        typedef ChannelOf<SV> Channel;
        void *mem = simalloc::raw_alloc(sizeof(Channel));
        Channel *ch = new (mem) Channel();
        std::vector<int> m;
        auto check = [&](const char *when) {
            if (ch->id != 42)
                violate("C14/write-outside-storage@base-class", "%s: a %s used as a base class next to a virtual base: the virtual base's member reads %d, its constructor had set 42", when, what, ch->id);
            if (ch->size() != m.size() || ch->size() > N) violate("C14/size@base-class", "%s: %s as a base class reports size %zu, reference %zu", when, what, ch->size(), m.size());
        };
        check("construction");
        if ((char *)static_cast<NamedBase *>(ch) < (char *)static_cast<SV *>(ch) + sizeof(SV)) probe("virtual_base_in_the_tail_padding");
        for (auto &o : p.ops)
        {
            int k = (int)mod(arg(o, 0), 6);
            int v = (int)mod(arg(o, 1), 1000);
            switch (k)
            {
            case 0: ch->push_back(E(v)); if (m.size() < N) m.push_back(v); break;
            case 1: ch->clear(); m.clear(); break;
            case 2: ch->resize((size_t)(v % (2 * N + 1))); m.resize(std::min<size_t>((size_t)(v % (2 * N + 1)), N), 0); break;
            case 3: { SV other; other.push_back(E(v)); static_cast<SV &>(*ch) = other; m.assign(1, v); break; }
            case 4: { SV other; static_cast<SV &>(*ch) = std::move(other); m.clear(); break; }
            default:
            {
                // a second channel built next to the first one (default construction is where a container clears itself)
                void *mem2 = simalloc::raw_alloc(sizeof(Channel));
                Channel *c2 = new (mem2) Channel();
                if (c2->id != 42 || c2->size() != 0) violate("C14/write-outside-storage@base-class", "a freshly constructed %s-derived object has id=%d size=%zu", what, c2->id, c2->size());
                c2->~Channel();
                simalloc::raw_free(mem2, sizeof(Channel), "C14");
                break;
            }
            }
            tr.ev("channel op %d -> %zu", k, m.size());
            check("after-op");
        }
        ch->~Channel();
        simalloc::raw_free(mem, sizeof(Channel), "C14");
        res.nontrivial = true;
    }
    struct BaseClassWorld : World
    {
        const char *name() const override { return PARTNAME "static_vector as a base class next to a virtual base"; }
        unsigned weight(Tier) const override { return 1; }
        Plan generate(Rng &r, Tier) override
        {
            Plan p;
            p.cfg = {(int64_t)r.below(4), (int64_t)r.below(2), (int64_t)r.below(3)};
            int n = (int)r.range(1, 12);
            for (int i = 0; i < n; i++) p.ops.push_back({(int64_t)r.below(6), (int64_t)r.below(1000)});
            return p;
        }
        std::string describe(const Plan &p) override
        {
            std::string s = "element " + std::to_string(mod(p.c(2), 3)) + ":";
            for (auto &o : p.ops) s += " " + std::to_string(mod(arg(o, 0), 6)) + "(" + std::to_string(arg(o, 1)) + ")";
            return s;
        }
        Result execute(const Plan &p, Trace &tr) override
        {
            Result res;
            simalloc::st().reset((int)p.c(0), p.c(1) != 0);
            switch ((int)mod(p.c(2), 3))
            {
            case 0: run_channel<long double, 2>(p, tr, res, "static_vector<long double,2>"); break;
            case 1: run_channel<Wide16, 3>(p, tr, res, "static_vector<16-byte-aligned element,3>"); break;
            default: run_channel<int, 3>(p, tr, res, "static_vector<int,3>"); break;
            }
            if (simalloc::live_blocks() != 0) violate("C14/harness", "simulated memory not released");
            return res;
        }
    };
#endif
    struct BigCapWorld : World
    {
        const char *name() const override { return PARTNAME "capacity 70000"; }
        unsigned weight(Tier) const override { return 1; }
        Plan generate(Rng &r, Tier) override
        {
            Plan p;
            p.cfg = {(int64_t)r.below(4)};
            p.ops.push_back({(int64_t)r.below(3), (int64_t)r.below(500)});
            return p;
        }
        Result execute(const Plan &p, Trace &tr) override
        {
            Result res;
            const size_t N = 70000;
            int extra = p.ops.empty() ? 1 : (int)mod(arg(p.ops[0], 1), 500);
            {
                typedef igris::static_vector<uint8_t, N> SV;
                void *mem = simalloc::raw_alloc(sizeof(SV));
                SV *v = new (mem) SV();
                for (size_t i = 0; i < N + (size_t)extra; i++) v->push_back((uint8_t)(i * 13));
                if (v->size() != N || v->room() != 0) violate("C14/over-capacity@push_back", "static_vector<uint8_t,70000> offered %zu elements reports size %zu room %zu", N + (size_t)extra, v->size(), v->room());
                for (size_t i = 0; i < N; i += (i > 64 && i < N - 64 && i % 8192 ? 257 : 1))
                    if ((*v)[i] != (uint8_t)(i * 13)) violate("C14/sequence@push_back", "element %zu of a static_vector<uint8_t,70000> differs from what was pushed", i);
                v->resize(65536 + (size_t)extra);
                if (v->size() != 65536 + (size_t)extra) violate("C14/size@resize", "static_vector<uint8_t,70000> resized to %zu reports %zu", 65536 + (size_t)extra, v->size());
                v->~SV();
                simalloc::raw_free(mem, sizeof(SV), "C14");
            }
            {
                typedef igris::static_string<N> SS;
                void *mem = simalloc::raw_alloc(sizeof(SS));
                SS *x = new (mem) SS();
                for (size_t i = 0; i < N + (size_t)extra; i++) x->push_back((char)('a' + i % 26));
                if (x->size() != N || x->room() != 0 || strlen(x->c_str()) != N) violate("C14/string-over-capacity@after-op", "static_string<70000> offered %zu characters reports size %zu, c_str() length %zu", N + (size_t)extra, x->size(), strlen(x->c_str()));
                x->~SS();
                simalloc::raw_free(mem, sizeof(SS), "C14");
            }
            check_deferred();
            probe("capacity_over_65535");
            tr.ev("big capacity, %d extra", extra);
            res.nontrivial = true;
            return res;
        }
    };
    struct SSWorld : World
    {
        const char *name() const override { return PARTNAME "static_string"; }
        unsigned weight(Tier) const override { return 2; }
        Plan generate(Rng &r, Tier tier) override
        {
            Plan p;
            p.cfg = {(int64_t)r.below(4), (int64_t)r.below(2), (int64_t)r.below(6)};
            int n = (int)r.range(3, tier == THOROUGH ? 60 : 30);
            if (r.chance(1, 40)) n *= 25; // a long history: what only accumulates over hundreds or thousands of operations
            for (int i = 0; i < n; i++) p.ops.push_back({(int64_t)r.below(T_N), 0, (int64_t)r.below(40), 0, (int64_t)r.below(1000)});
            return p;
        }
        Result execute(const Plan &p, Trace &tr) override
        {
            Result res;
            simalloc::st().reset((int)p.c(0), p.c(1) != 0);
            // (capacities 7 and 15: the character array ends on a word boundary, the size member follows it without padding)
            switch ((int)mod(p.c(2), 6))
            {
            case 0: run_ss<1>(p, tr, res); break;
            case 1: run_ss<2>(p, tr, res); break;
            case 2: run_ss<4>(p, tr, res); break;
            case 3: run_ss<8>(p, tr, res); break;
            case 4: run_ss<7>(p, tr, res); break;
            default: run_ss<15>(p, tr, res); break;
            }
            if (simalloc::live_blocks() != 0) violate("C14/harness", "simulated memory not released");
            return res;
        }
    };
}

int main(int argc, char **argv)
{
    SVWorld<int> wi(PARTNAME "static_vector<int>", false);
    SVWorld<tracked::T> wt(PARTNAME "static_vector<Tracked>", true);
    SVWorld<Handle, false> wh(PARTNAME "static_vector<Handle>", false);
    SVWorld<Tiny, false> wy(PARTNAME "static_vector<2-byte element>", false);
    SVWorld<UCell, false> wu(PARTNAME "static_vector<union element with a destructor>", false);
    SVWorld<Wide32, false> ww(PARTNAME "static_vector<element aligned to 32 bytes>", false);
    SVWorld<Nest, false> wnest(PARTNAME "static_vector<value constructible from a list of itself>", false);
    SVWorld<Dflt, false> wdflt(PARTNAME "static_vector<trivially copyable element with default member initialisers>", false);
    SSWorld ws;
    Harness h;
    h.property = "C14";
    BigCapWorld wbig;
    h.worlds = {&wi, &wt, &ws, &wh, &wy, &wu, &wbig, &ww, &wnest, &wdflt};
#ifndef C14_TWIN
    static BaseClassWorld wbase;
    h.worlds.push_back(&wbase);
#endif
#ifdef C14_TWIN
    h.real = {"igris/container/std_portable.h (static_vector, static_string twins)"};
#else
    h.real = {"igris/container/static_vector.h", "igris/container/static_string.h", "igris/util/ctrdtr.h"};
#endif
    h.stub = {"SimAlloc blocks holding the container objects (exact size, seed-chosen fill)", "Tracked element type (lifetime registry + storage zones)",
              "reference: std::vector / std::string truncated to N"};
    return harness_main(h, argc, argv);
}
KIT_ASAN_OPTIONS()
