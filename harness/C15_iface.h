// interface between the C15 harness and the two terminal implementations (vterm.c / vtermxx.cpp), which cannot
// share a translation unit (readline.h / readlinexx.h and vterm.h / vtermxx.h use the same include guards)
#pragma once
struct TermSink
{
    virtual ~TermSink() {}
    virtual void on_write(const char *data, unsigned len) = 0;
    virtual void on_execute(const char *line, unsigned len) = 0;
    virtual void on_signal(int sig) = 0;
};
struct Term
{
    virtual ~Term() {}
    // init, then prompt / echo settings, then the init step (prints the prompt)
    // flags: bit 0 = no signal callback is registered; bits 1..2 = what the terminal object's storage holds before init
    //        (0x00, 0xA5, 0xFF, 0x01 bytes: the C API initialises a caller-supplied struct)
    virtual void start(unsigned cap, unsigned hist, TermSink *sink, const char *prompt, bool echo, unsigned flags = 0) = 0;
    virtual void set_echo(bool on) = 0; // may be called from inside the execute callback (a login / password dialogue)
    virtual void feed(int c) = 0;
    virtual long len() = 0;    // -1 when the implementation gives no public access
    virtual long cursor() = 0; // -1 when not accessible
    virtual const char *name() = 0;
};
// the C++ line editor used on its own (igris::readline of readlinexx.h): typed bytes in, linecpy out
struct XReadline
{
    virtual ~XReadline() {}
    virtual void init(unsigned cap, unsigned hist) = 0;
    virtual int key(int c) = 0;
    virtual int linecpy(char *dst, unsigned long size) = 0;
};
XReadline *make_xreadline();
Term *make_term_c();
Term *make_term_xx();
