// C04 / C05: a translation unit of a gateway between a legacy link and a link with the default alphabet - it includes the legacy
// header first and igris/protocols/gstuff.h after it (the other order is what C04_C05_link.cpp has). The default context and the
// frames made here must be the same as anywhere else.
#include <igris/protocols/gstuff_v1/autorecv.h>
#include <igris/protocols/gstuff.h>

#include <cstring>

extern "C" void c04_gateway_default_context(unsigned char out[6])
{
    gstuff_context c;
    out[0] = (unsigned char)c.GSTUFF_START;
    out[1] = (unsigned char)c.GSTUFF_STOP;
    out[2] = (unsigned char)c.GSTUFF_STUB;
    out[3] = (unsigned char)c.GSTUFF_STUB_START;
    out[4] = (unsigned char)c.GSTUFF_STUB_STOP;
    out[5] = (unsigned char)c.GSTUFF_STUB_STUB;
}
// encodes with the default context, decodes with a default-context receiver; returns the number of payload bytes delivered on the
// last byte of the frame, -1 if no packet (or an early one) was reported
extern "C" int c04_gateway_roundtrip(const char *payload, int n, char *frame, int *framelen, char *delivered)
{
    *framelen = gstuffing(payload, (size_t)n, frame, gstuff_context());
    uint8_t buf[80];
    gstuff_autorecv rx{gstuff_context()};
    rx.init(buf, sizeof buf);
    for (int i = 0; i < *framelen; i++)
    {
        int st = rx.newchar(frame[i]);
        if (st == GSTUFF_NEWPACKAGE)
        {
            if (i != *framelen - 1) return -1;
            memcpy(delivered, rx.cstr(), rx.size());
            return (int)rx.size();
        }
    }
    return -1;
}
