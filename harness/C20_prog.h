// interface between the instrumented program-under-test TU (C20_prog.cpp) and the uninstrumented harness
#pragma once
#ifdef __cplusplus
extern "C"
{
#endif
    // implemented by the harness (oracle hooks; run in the calling simulated thread, serialised by the simulator)
    void h_locked(int level);
    void h_unlocking(int level);
    void h_saving(void);
    void h_saved(void);
    void h_restored(int counter);
    void h_wait_begin(int prio);
    void h_wait_end(long fut);
    void h_wake_begin(int all, int wrapped, long u);
    void h_wake_end(void);
    void h_delegate_parking(int id, int prio, void *head);
    void h_delegate_woken(int id, long fut);
    void h_delegate_dying(int id);
    void h_delegate_handler(int id, int which, int expected);
    void h_push_begin(int prod, int seq);
    void h_push_end(int prod, int seq);
    void h_pop_begin(void);
    void h_pop_end(int prod, int seq);
    void h_size_begin(void);
    void h_size_end(unsigned long sz);

    // implemented by the program TU
    void prog_lock_round(int depth, int use_save, long *counter);
    void *prog_head_new(void);
    void prog_head_delete(void *h);
    unsigned prog_head_size_locked(void *h);
    long prog_wait(void *head, int prio);
    void prog_wake(void *head, int all, int wrapped, long u);
    void *prog_delegate_new(int id, int kind);
    void prog_delegate_delete(void *d);
    void *prog_delegate_park(void *d, void *head, int how);
    void *prog_queue_new(void);
    void *prog_queue_new_preloaded(int prod, int n);
    void prog_queue_delete(void *q);
    void prog_queue_push(void *q, int prod, int seq);
    void prog_queue_pop(void *q);
    void prog_queue_size(void *q);
    unsigned long prog_queue_size_plain(void *q);
#ifdef __cplusplus
}
#endif
