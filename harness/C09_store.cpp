// C09 — serialisation over cursor storages (engine E5, DESIGN.md 4.5 / 5 C09).
// A writer task serialises a generated sequence of values of a generated sequence of types into ONE storage
// (concatenation); a reader task decodes the same type sequence from what the storage layer hands over: everything
// (fault-free worlds) or the stream cut at offset k, for every k, presented as an exact-size heap copy (fault world,
// for the bounded deserialize_buffer_storage reader). A golden world replays encodings recorded from an earlier tree.
#include "../sim/kit.h"
#include "C09_iface.h"

#include <fstream>
#include <memory>
#include <sstream>

using namespace kit;
using namespace c09;

#ifndef VERIF_DIR
#define VERIF_DIR "/verif"
#endif

namespace
{
    std::unique_ptr<Api> g_api[4];
    Api &api(int k)
    {
        if (!g_api[k]) g_api[k].reset(k == 0 ? make_api1() : k == 1 ? make_api2() : k == 2 ? make_api1b() : make_api2b());
        return *g_api[k];
    }

    GenCfg cfg_of(const Plan &p)
    {
        GenCfg c;
        c.max_str = (size_t)mod(p.c(0), 400);
        c.max_elems = (size_t)mod(p.c(1), 12);
        c.specials = true;
        return c;
    }
    std::vector<Item> items_of(const Plan &p, Api &a)
    {
        std::vector<Item> v;
        for (auto &o : p.ops) v.push_back(Item{(int)mod(arg(o, 0), a.ntypes()), (uint64_t)arg(o, 1), mod(arg(o, 2), 2) != 0});
        return v;
    }
    void note_probes(const StreamReport &rep)
    {
        if (rep.empty_container) probe("empty_container");
        if (rep.len_65535) probe("len_65535");
        if (rep.payload_64k) probe("payload_64k_or_more");
        if (rep.count_over_255) probe("container_count_over_255");
        if (rep.nested3) probe("nested_depth3");
        if (rep.nontrivial_elem) probe("non_trivial_element");
    }

    struct StreamWorld : World
    {
        int k;
        bool cut;
        std::string nm;
        StreamWorld(int k, bool cut) : k(k), cut(cut) { nm = std::string(k == 1 ? "serializer-api" : k == 0 ? "archive-api" : k == 2 ? "archive-api-bufwriter" : "serializer-api-free-functions") + (cut ? "+truncation" : ""); }
        const char *name() const override { return nm.c_str(); }
        unsigned weight(Tier) const override { return k >= 2 ? (cut ? 1 : 2) : 3; }
        Plan generate(Rng &r, Tier tier) override
        {
            Plan p;
            int64_t max_str = r.pick<int64_t>({0, 3, 12, 40, 300});
            int64_t max_el = r.pick<int64_t>({0, 1, 3, 6, 11});
            p.cfg = {max_str, max_el};
            int n = (int)r.range(1, cut ? 4 : 6);
            if (!cut && r.chance(1, 40)) n = (int)r.range(100, 300); // a long stream through one writer / one reader
            for (int i = 0; i < n; i++)
            {
                bool big = tier == THOROUGH ? r.chance(1, 12) : r.chance(1, 40);
                if (cut) big = false;
                p.ops.push_back({(int64_t)r.below(64), (int64_t)(r.next() >> 16), big ? 1 : 0});
            }
            return p;
        }
        std::string describe(const Plan &p) override
        {
            Api &a = api(k);
            std::string s = std::string(a.name()) + " max_str=" + std::to_string(mod(p.c(0), 400)) + " max_elems=" + std::to_string(mod(p.c(1), 12)) + " stream:";
            for (auto &it : items_of(p, a)) s += std::string(" ") + a.tname(it.type) + "#" + std::to_string(it.seed % 100000) + (it.big ? "(big)" : "");
            return s;
        }
        Result execute(const Plan &p, Trace &tr) override
        {
            Result res;
            Api &a = api(k);
            GenCfg cfg = cfg_of(p);
            std::vector<Item> items = items_of(p, a);
            if (items.empty()) return res;
            StreamReport rep;
            a.roundtrip(items, cfg, rep);
            tr.bytes(rep.encoded.data(), rep.encoded.size());
            tr.u(rep.encoded.size());
            note_probes(rep);
            stat("values_round_tripped", items.size());
            stat("bytes_written", rep.encoded.size());
            res.simtime = rep.encoded.size();
            res.nontrivial = items.size() >= 2 && rep.has_container;
            if (cut && a.bounded_reader())
            {
                // fault enumeration: every truncation point of this stream (bounded; long streams: all value boundaries +-2 and a stride)
                size_t n = rep.encoded.size();
                std::vector<size_t> cuts;
                if (n <= 400)
                    for (size_t c = 0; c <= n; c++) cuts.push_back(c);
                else
                {
                    for (size_t c = 0; c <= n; c += n / 300 + 1) cuts.push_back(c);
                    for (size_t b : rep.boundaries)
                        for (long d = -2; d <= 2; d++)
                            if ((long)b + d >= 0 && (size_t)((long)b + d) <= n) cuts.push_back((size_t)((long)b + d));
                    cuts.push_back(n);
                }
                for (size_t c : cuts)
                {
                    a.decode_cut(items, cfg, rep, c);
                    fault("stream_cut");
                    // was the cut inside a 2-byte length prefix? (heuristic probe: right after a boundary of a container value)
                    for (size_t b : rep.boundaries)
                        if (c == b + 1) probe("cut_inside_length_prefix_candidate");
                }
                stat("truncation_points", cuts.size());
                tr.u(cuts.size());
            }
            return res;
        }
    };

    // ---------------------------------------------------------------- golden encodings (durable state written by an earlier version)
    struct GoldenCase
    {
        int api, type;
        uint64_t seed;
        int max_str, max_el;
        std::string tname, hex;
    };
    std::vector<GoldenCase> load_golden()
    {
        std::vector<GoldenCase> v;
        std::ifstream f(std::string(VERIF_DIR) + "/golden/C09.txt");
        std::string line;
        while (std::getline(f, line))
        {
            if (line.empty() || line[0] == '#') continue;
            std::istringstream is(line);
            GoldenCase g;
            if (is >> g.api >> g.type >> g.seed >> g.max_str >> g.max_el >> g.tname >> g.hex) v.push_back(g);
            else if (!is.fail() || true)
            {
                // an empty encoding cannot occur; tolerate a missing hex field as "empty"
            }
        }
        return v;
    }
    std::string unhex(const std::string &h)
    {
        std::string o;
        if (h == "-") return o;
        for (size_t i = 0; i + 1 < h.size(); i += 2) o.push_back((char)strtol(h.substr(i, 2).c_str(), 0, 16));
        return o;
    }
    std::string tohex(const std::string &s)
    {
        if (s.empty()) return "-";
        std::string o;
        char t[4];
        for (unsigned char c : s) { snprintf(t, sizeof t, "%02x", c); o += t; }
        return o;
    }
    struct GoldenWorld : World
    {
        std::vector<GoldenCase> cases;
        bool loaded = false;
        const char *name() const override { return "golden-encodings"; }
        unsigned weight(Tier) const override { return 1; }
        Plan generate(Rng &r, Tier) override
        {
            Plan p;
            p.cfg = {0, 0};
            for (int i = 0; i < 12; i++) p.ops.push_back({(int64_t)r.below(100000)});
            return p;
        }
        Result execute(const Plan &p, Trace &tr) override
        {
            Result res;
            if (!loaded) { cases = load_golden(); loaded = true; }
            if (cases.empty()) violate("C09/golden-missing", "golden file %s/golden/C09.txt is missing or empty", VERIF_DIR);
            for (auto &o : p.ops)
            {
                const GoldenCase &g = cases[(size_t)mod(arg(o, 0), (int64_t)cases.size())];
                Api &a = api(g.api);
                if (std::string(a.tname(g.type)) != g.tname)
                    violate("C09/golden-type-table", "golden case refers to type #%d = %s, the harness calls it %s", g.type, g.tname.c_str(), a.tname(g.type));
                GenCfg cfg;
                cfg.max_str = (size_t)g.max_str;
                cfg.max_elems = (size_t)g.max_el;
                Item it{g.type, g.seed, false};
                std::string now = a.encode_one(it, cfg);
                std::string rec = unhex(g.hex);
                if (now != rec)
                    violate(std::string("C09/golden-encoding-changed@") + a.name() + ":" + g.tname, "the recorded encoding of this %s value is %s, the current tree writes %s", g.tname.c_str(), hexs(rec).c_str(),
                            hexs(now).c_str());
                if (!a.decode_one_equals(it, cfg, rec))
                    violate(std::string("C09/golden-decode-changed@") + a.name() + ":" + g.tname, "the recorded encoding %s of a %s value no longer decodes to that value", hexs(rec).c_str(), g.tname.c_str());
                tr.u(g.seed);
                stat("golden_cases_checked");
            }
            res.nontrivial = true;
            return res;
        }
    };
}

int main(int argc, char **argv)
{
    if (argc >= 2 && std::string(argv[1]) == "golden-gen")
    {
        // prints the golden file for the current tree: a fixed, seed-independent list of cases
        printf("# api type seed max_str max_elems typename hex   (recorded with ./build/C09/main/harness golden-gen)\n");
        Rng r(20261004);
        for (int k = 0; k < 2; k++)
        {
            Api &a = api(k);
            for (int t = 0; t < a.ntypes(); t++)
                for (int j = 0; j < 6; j++)
                {
                    GenCfg cfg;
                    cfg.max_str = (size_t)(j < 3 ? 5 : 20);
                    cfg.max_elems = (size_t)(j < 3 ? 2 : 4);
                    uint64_t seed = r.next() >> 16;
                    Item it{t, seed, false};
                    bool by_rule = false;
                    std::string e = a.encode_one(it, cfg, &by_rule);
                    // only encodings whose round trip holds are recorded (an encoding that is not the layout rule cannot
                    // be decoded element-wise; trying would chase raw pointers)
                    if (!by_rule || !a.decode_one_equals(it, cfg, e)) continue;
                    printf("%d %d %llu %zu %zu %s %s\n", k, t, (unsigned long long)seed, cfg.max_str, cfg.max_elems, std::string(a.tname(t)).c_str(), tohex(e).c_str());
                }
        }
        return 0;
    }
    StreamWorld w1(0, false), w2(1, false), w2c(1, true), w1b(2, false), w2b(3, false), w2bc(3, true);
    GoldenWorld wg;
    Harness h;
    h.property = "C09";
    h.worlds = {&w1, &w2, &w2c, &wg, &w1b, &w2b, &w2bc};
    h.real = {"igris/serialize/archive.h", "igris/serialize/helper.h", "igris/serialize/stdtypes.h", "igris/serialize/serialize.h", "igris/serialize/serializer.h",
              "igris/serialize/serialize_protocol.h", "igris/serialize/serialize_storage.h", "igris/serialize/serialize_archive.h", "igris/serialize/serialize_scheme.h",
              "igris/serialize/serialize_tags.h", "igris/serialize/serialize_checks.h", "igris/buffer.h"};
    h.stub = {"writer / reader tasks over one storage", "storage layer that cuts the stream at every offset (exact-size heap copies)", "layout-rule reference encoder",
              "golden encodings file golden/C09.txt"};
    return harness_main(h, argc, argv);
}
// stack-use-after-return detection is off here: truncated decodes are run twice over differently scribbled stacks
extern "C" __attribute__((used, visibility("default"))) const char *__asan_default_options()
{
    return "exitcode=77:detect_leaks=0:abort_on_error=0:detect_stack_use_after_return=0:allocator_may_return_null=1:handle_abort=1";
}
