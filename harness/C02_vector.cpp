// C02 — igris::vector (and, in the second part, its twin in std_portable.h), flat_map, flat_set against the std
// containers (engine E6, DESIGN.md 5 C02). The `Allocator` parameter is the seam: SimAlloc hands out exact-size blocks
// with a seed-chosen fill and seed-chosen immediate reuse, checks deallocate(p, n) against allocate(n) and balances.
// Built twice: default -> igris/container/vector.h + flat_map.h + flat_set.h ; -DC02_TWIN -> igris/container/std_portable.h.
#include "../sim/kit.h"
#include <limits>
#include "../sim/simalloc.h"
#include "../sim/tracked.h"

#ifdef C02_TWIN
#include <igris/container/std_portable.h>
#define PROP_WORLD "std_portable-vector"
#else
#include <igris/container/flat_map.h>
#include <igris/container/flat_set.h>
#include <igris/container/vector.h>
#define PROP_WORLD "vector"
#endif

#include <map>
#include <memory>
#include <set>
#include <vector>

using namespace kit;

namespace
{
    // distinct allocator types per part: the two parts are separate executables, but distinct names keep it obvious
#ifdef C02_TWIN
    template <class T> struct AllocX : simalloc::Alloc<T>
    {
        template <class U> struct rebind { typedef AllocX<U> other; };
        AllocX() {}
        template <class U> AllocX(const AllocX<U> &) {}
    };
#else
    template <class T> using AllocX = simalloc::Alloc<T>;
#endif

    int val_of(int x) { return x; }
    int val_of(const tracked::T &t) { return t.value(); }
    // a trivially copyable element whose value is not its representation: equality and order look at `v` only (the way
    // +0.0 == -0.0, or a record with a cache field or padding), `tag` differs between any two separately made objects
    struct Loose
    {
        int v;
        unsigned tag;
        static unsigned next_tag;
        Loose() : v(0), tag(next_tag++) {}
        Loose(int x) : v(x), tag(next_tag++) {}
        bool operator==(const Loose &o) const { return v == o.v; }
        bool operator!=(const Loose &o) const { return v != o.v; }
        bool operator<(const Loose &o) const { return v < o.v; }
    };
    unsigned Loose::next_tag = 1;
    static_assert(std::is_trivially_copyable<Loose>::value, "Loose must be trivially copyable");
    int val_of(const Loose &t) { return t.v; }
    // a handle / guard style element: implicit (trivial) copies, user-provided destructor. Constructions are not observable;
    // the oracle counts destructor calls: an operation that removes k elements without reallocating runs exactly k of them
    struct Handle
    {
        int v;
        Handle(int x = 0) : v(x) {}
        ~Handle() { dtors++; }
        bool operator==(const Handle &o) const { return v == o.v; }
        bool operator!=(const Handle &o) const { return v != o.v; }
        bool operator<(const Handle &o) const { return v < o.v; }
        static long dtors;
    };
    long Handle::dtors = 0;
    int val_of(const Handle &t) { return t.v; }
    // a recursive value type that can be built from a list of itself (a JSON-like value): relocating such an element must
    // move it, not wrap it in a one-element list
    struct Nest
    {
        int v;
        std::vector<Nest> kids;
        Nest(int x = 0) : v(x) {}
        Nest(std::initializer_list<Nest> l) : v(-1), kids(l) {}
        bool operator==(const Nest &o) const { return v == o.v && kids == o.kids; }
        bool operator!=(const Nest &o) const { return !(*this == o); }
        bool operator<(const Nest &o) const { return v != o.v ? v < o.v : kids.size() < o.kids.size(); }
    };
    int val_of(const Nest &t) { return t.kids.empty() ? t.v : -100000 - (int)t.kids.size(); }
    // an element that points into itself (a small-buffer string, a node with an embedded sentinel): trivial destructor, but
    // copying it bit by bit leaves the pointer aimed at the old place
    struct SelfRef
    {
        int v;
        const int *self;
        SelfRef(int x = 0) : v(x), self(&v) {}
        SelfRef(const SelfRef &o) : v(o.v), self(&v) {}
        SelfRef &operator=(const SelfRef &o) { v = o.v; return *this; }
        bool operator==(const SelfRef &o) const { return v == o.v; }
        bool operator!=(const SelfRef &o) const { return v != o.v; }
        bool operator<(const SelfRef &o) const { return v < o.v; }
    };
    static_assert(std::is_trivially_destructible<SelfRef>::value && !std::is_trivially_copyable<SelfRef>::value, "SelfRef: trivial destructor, real copy");
    int val_of(const SelfRef &t) { return t.self == &t.v ? t.v : -777777; } // (an element whose pointer aims elsewhere reads as -777777)
    // a vector of vectors: the element is itself an igris::vector (over the same simulated allocator); VecElem(x) holds
    // x % 3 + 1 integers x, x+1, ... - an element whose inner vector lost, duplicated or mixed up its content reads as -888888
    struct VecElem
    {
        igris::vector<int, AllocX<int>> v;
        VecElem(int x = 0) { for (int i = 0; i <= ((x % 3) + 3) % 3; i++) v.push_back(x + i); }
        int value() const
        {
            if (v.size() == 0) return -888888;
            int x = v[0];
            if (v.size() != (size_t)(((x % 3) + 3) % 3 + 1)) return -888888;
            for (size_t i = 0; i < v.size(); i++) if (v[i] != x + (int)i) return -888888;
            return x;
        }
        bool operator==(const VecElem &o) const { return value() == o.value(); }
        bool operator!=(const VecElem &o) const { return !(*this == o); }
        bool operator<(const VecElem &o) const { return value() < o.value(); }
    };
    int val_of(const VecElem &t) { return t.value(); }
    template <class E> long dtor_count() { return -1; }
    template <> long dtor_count<Handle>() { return Handle::dtors; }

    enum { V_PUSH, V_EMPLACE_BACK, V_INSERT, V_EMPLACE, V_INSERT_RANGE, V_ERASE_RANGE, V_ERASE_TAIL, V_POP, V_RESIZE, V_RESERVE, V_CLEAR,
           V_COPY_CTOR, V_MOVE_CTOR, V_COPY_ASSIGN, V_SELF_ASSIGN, V_MOVE_ASSIGN, V_COMPARE, V_AT, V_INSERT_SORTED, V_CTOR_N, V_CTOR_RANGE,
           V_CTOR_ILIST, V_INSERT_INT, V_PUSH_ALIAS, V_EMPLACE_BACK_ALIAS, V_INSERT_ALIAS, V_EMPLACE_ALIAS, V_ALGO, V_N };
    const char *V_NAME[] = {"push_back", "emplace_back", "insert", "emplace", "insert_range", "erase(range)", "erase(newend)", "pop_back", "resize", "reserve", "clear",
                            "copy_ctor", "move_ctor", "copy_assign", "self_assign", "move_assign", "compare", "at", "insert_sorted", "ctor(n)", "ctor(range)",
                            "ctor(ilist)", "insert(int pos)", "push_back(own element)", "emplace_back(own element)", "insert(own element)", "emplace(own element)", "std-algorithm"};

    template <class E> struct VecWorld : World
    {
        const char *nm;
        bool tracked_elems;
        VecWorld(const char *n, bool t) : nm(n), tracked_elems(t) {}
        const char *name() const override { return nm; }
        unsigned weight(Tier) const override { return tracked_elems ? 4 : 2; }
        typedef igris::vector<E, AllocX<E>> Vec;

        Plan generate(Rng &r, Tier tier) override
        {
            Plan p;
            p.cfg = {(int64_t)r.below(4), (int64_t)r.below(2)};
            int n = (int)r.range(3, tier == THOROUGH ? 90 : 40);
            if (r.chance(1, 40)) n *= 25; // a long history: what only accumulates over hundreds or thousands of operations
            for (int i = 0; i < n; i++)
            {
                int64_t k;
                unsigned c = (unsigned)r.below(100);
                if (c < 30) k = r.chance(1, 2) ? V_PUSH : V_EMPLACE_BACK;
                else if (c < 50) k = r.pick<int64_t>({V_INSERT, V_EMPLACE, V_INSERT_RANGE, V_INSERT_INT, V_INSERT_ALIAS, V_EMPLACE_ALIAS, V_PUSH_ALIAS});
                else if (c < 62) k = r.pick<int64_t>({V_ERASE_RANGE, V_ERASE_TAIL, V_POP});
                else k = (int64_t)r.below(V_N);
                p.ops.push_back({k, (int64_t)r.below(2), (int64_t)r.below(24), (int64_t)r.below(24), (int64_t)r.below(1000)});
            }
            return p;
        }
        std::string describe(const Plan &p) override
        {
            std::string s = std::string("fill=") + std::to_string(mod(p.c(0), 4)) + " reuse=" + std::to_string(mod(p.c(1), 2)) + ":";
            for (auto &o : p.ops)
                s += std::string(" ") + (arg(o, 1) % 2 ? "B." : "A.") + V_NAME[mod(arg(o, 0), V_N)] + "(" + std::to_string(arg(o, 2)) + "," + std::to_string(arg(o, 3)) + "," + std::to_string(arg(o, 4)) + ")";
            return s;
        }

        Result execute(const Plan &p, Trace &tr) override
        {
            Result res;
            simalloc::st().reset((int)p.c(0), p.c(1) != 0);
            tracked::reg().reset("C02");
            Loose::next_tag = 1;
            if (mod(p.c(0), 4) == 1) probe("fill_0xFF_memory");
            bool realloc_seen = false, mid_edit = false;
            {
                std::unique_ptr<Vec> v[2];
                std::vector<int> m[2];
                v[0].reset(new Vec());
                v[1].reset(new Vec());
                // exact for operations that only remove (nothing is constructed or shifted); `at_least` for erase(range), where an
                // implementation may legitimately destroy and re-create the shifted tail as well
                auto expect_destroyed = [&](long before, size_t gone, const char *what, bool at_least = false) {
                    long h = dtor_count<E>();
                    if (h < 0) return;
                    if (gone) probe("handle_elements_destroyed");
                    if (at_least ? (h - before < (long)gone) : (h - before != (long)gone)) violate(std::string("C02/lifetime-destructor-count@") + what, "%s removed %zu elements of a vector<Handle>, but %ld destructors ran", what, gone, h - before);
                };
                auto check = [&](const char *when) {
                    check_deferred();
                    for (int w = 0; w < 2; w++)
                    {
                        Vec &x = *v[w];
                        if (x.size() != m[w].size()) violate(std::string("C02/size@") + when, "%s: size()=%zu, std::vector has %zu", when, x.size(), m[w].size());
                        if (x.capacity() < x.size()) violate(std::string("C02/capacity@") + when, "%s: capacity %zu < size %zu", when, x.capacity(), x.size());
                        if (x.empty() != m[w].empty()) violate(std::string("C02/empty@") + when, "%s: empty() differs", when);
                        size_t k = 0;
                        for (auto it = x.begin(); it != x.end(); ++it, ++k)
                        {
                            int got = val_of(*it);
                            check_deferred();
                            if (got != m[w][k])
                                violate(std::string("C02/sequence@") + when, "%s: element %zu is %d, std::vector has %d (size %zu)", when, k, got, m[w][k], m[w].size());
                        }
                        if (!m[w].empty())
                        {
                            if (val_of(x.front()) != m[w].front() || val_of(x.back()) != m[w].back()) violate(std::string("C02/front-back@") + when, "%s: front()/back() differ", when);
                            if (val_of(x[m[w].size() - 1]) != m[w].back() || x.data() != &x[0]) violate(std::string("C02/index@") + when, "%s: operator[] / data() differ", when);
                        }
                    }
                    check_deferred();
                };
                check("init");
                for (auto &o : p.ops)
                {
                    int k = (int)mod(arg(o, 0), V_N);
                    int w = (int)mod(arg(o, 1), 2), u = 1 - w;
                    Vec &x = *v[w];
                    std::vector<int> &mx = m[w];
                    int val = (int)mod(arg(o, 4), 1000);
                    size_t cap0 = x.capacity();
                    E *data0 = x.data();
                    switch (k)
                    {
                    case V_PUSH:
                    case V_EMPLACE_BACK:
                    {
                        E e(val);
                        // fault: the element's constructor throws while it is being appended - the vector must be unchanged
                        // (appending is the one place where the current code gives that guarantee; no other exception safety is demanded)
                        bool boom = std::is_same<E, tracked::T>::value && mod(arg(o, 3), 9) == 0;
                        bool thrown = false;
                        if (boom) tracked::reg().throw_after = 1;
                        // fault: the vector is full and the allocator refuses the larger block
                        bool refuse = !boom && x.size() == x.capacity() && mod(arg(o, 3), 9) == 4;
                        simalloc::st().refuse_next = refuse;
                        try
                        {
                            if (k == V_PUSH) x.push_back(e);
                            else if (mod(arg(o, 2), 2)) x.emplace_back(val);
                            else x.emplace_back(e); // a named (non-const) object: it is copied, the caller keeps its value
                        }
                        catch (const tracked::Boom &)
                        {
                            thrown = true;
                            probe("append_with_throwing_constructor");
                        }
                        catch (const std::bad_alloc &)
                        {
                            thrown = true;
                            if (!refuse) throw;
                        }
                        simalloc::st().refuse_next = false;
                        tracked::reg().throw_after = 0;
                        if (val_of(e) != val) violate("C02/argument-modified", "the object passed to %s as an lvalue holds %d afterwards, it held %d (it was moved from instead of copied)", V_NAME[k], val_of(e), val);
                        if (!thrown) mx.push_back(val);
                        break;
                    }
                    case V_INSERT:
                    case V_EMPLACE:
                    case V_INSERT_INT:
                    {
                        size_t pos = (size_t)mod(arg(o, 2), (int64_t)mx.size() + 1);
                        if (pos < mx.size()) mid_edit = true;
                        if (pos < mx.size() && x.size() == x.capacity()) probe("insert_at_realloc_boundary");
                        typename Vec::iterator it;
                        if (k == V_INSERT)
                        {
                            E e(val);
                            it = x.insert((typename Vec::const_iterator)(x.data() + pos), e);
                        }
                        else if (k == V_INSERT_INT)
                        {
                            E e(val);
                            it = x.insert((int)pos, e);
                        }
                        else
                            it = x.emplace((typename Vec::const_iterator)(x.data() + pos), val);
                        mx.insert(mx.begin() + pos, val);
                        if (it != x.data() + pos) violate("C02/insert-result", "insert/emplace returned an iterator to position %td, expected %zu", it - x.data(), pos);
                        break;
                    }
                    case V_PUSH_ALIAS:
                    case V_EMPLACE_BACK_ALIAS:
                    case V_INSERT_ALIAS:
                    case V_EMPLACE_ALIAS:
                    {
                        // the argument is an element of the vector itself (std::vector guarantees this works)
                        if (mx.empty()) break;
                        size_t j = (size_t)mod(arg(o, 3), (int64_t)mx.size());
                        size_t pos = (size_t)mod(arg(o, 2), (int64_t)mx.size() + 1);
                        int v0 = mx[j];
                        if (x.size() == x.capacity()) probe("alias_argument_with_reallocation");
                        else probe("alias_argument_without_reallocation");
                        if (k == V_PUSH_ALIAS) { x.push_back(x[j]); mx.push_back(v0); }
                        else if (k == V_EMPLACE_BACK_ALIAS) { x.emplace_back(x[j]); mx.push_back(v0); }
                        else
                        {
                            if (pos < mx.size()) mid_edit = true;
                            if (k == V_INSERT_ALIAS) x.insert((typename Vec::const_iterator)(x.data() + pos), x[j]);
                            else if constexpr (requires(E &e) { { e.v } -> std::same_as<int &>; })
                            {
                                // half of the time the constructor argument is not the element but a member of it (a reference to a
                                // sub-object that lives inside the vector): emplace(pos, v[j].field)
                                if (val % 2) { x.emplace((typename Vec::const_iterator)(x.data() + pos), x[j].v); probe("emplace_argument_is_a_member_of_an_element"); }
                                else x.emplace((typename Vec::const_iterator)(x.data() + pos), x[j]);
                            }
                            else x.emplace((typename Vec::const_iterator)(x.data() + pos), x[j]);
                            mx.insert(mx.begin() + pos, v0);
                        }
                        break;
                    }
                    case V_INSERT_RANGE:
                    {
                        // a range from a foreign array (what std::vector::insert(pos, first, last) takes)
                        size_t pos = (size_t)mod(arg(o, 2), (int64_t)mx.size() + 1);
                        size_t cnt = (size_t)mod(arg(o, 3), 5);
                        std::vector<E> src;
                        std::vector<int> msrc;
                        for (size_t i = 0; i < cnt; i++) { src.emplace_back(val + (int)i); msrc.push_back(val + (int)i); }
                        if (pos < mx.size() && cnt) mid_edit = true;
                        const E *f = src.data(), *l = src.data() + cnt;
                        x.insert(x.data() + pos, (typename Vec::const_iterator)f, (typename Vec::const_iterator)l);
                        mx.insert(mx.begin() + pos, msrc.begin(), msrc.end());
                        probe("range_insert");
                        break;
                    }
                    case V_ERASE_RANGE:
                    {
                        size_t a = (size_t)mod(arg(o, 2), (int64_t)mx.size() + 1), b = (size_t)mod(arg(o, 3), (int64_t)mx.size() + 1);
                        if (a > b) std::swap(a, b);
                        if (a == 0 && b > 0 && b < mx.size()) probe("erase_prefix");
                        if (b < mx.size() && a < b) mid_edit = true;
                        long h0 = dtor_count<E>();
                        x.erase(x.begin() + a, x.begin() + b);
                        expect_destroyed(h0, b - a, "erase(range)", true);
                        mx.erase(mx.begin() + a, mx.begin() + b);
                        break;
                    }
                    case V_ERASE_TAIL:
                    {
                        size_t a = (size_t)mod(arg(o, 2), (int64_t)mx.size() + 1);
                        long h0 = dtor_count<E>();
                        x.erase(x.begin() + a);
                        expect_destroyed(h0, mx.size() - a, "erase(newend)");
                        mx.erase(mx.begin() + a, mx.end());
                        probe("erase_tail");
                        break;
                    }
                    case V_POP:
                        if (mx.empty()) break;
                        {
                            long h0 = dtor_count<E>();
                            x.pop_back();
                            expect_destroyed(h0, 1, "pop_back");
                        }
                        mx.pop_back();
                        break;
                    case V_RESIZE:
                    {
                        size_t n = (size_t)mod(arg(o, 2), 24);
                        long h0 = dtor_count<E>();
                        x.resize(n);
                        if (n <= mx.size()) expect_destroyed(h0, mx.size() - n, "resize");
                        mx.resize(n);
                        break;
                    }
                    case V_RESERVE:
                    {
                        size_t want = (size_t)mod(arg(o, 2), 40);
                        // fault: the allocator refuses the request - the vector is unchanged and still owns its old block (a vector
                        // that believed in the capacity it did not get would write past its block with the next appends: ASan)
                        bool refuse = want > x.capacity() && mod(arg(o, 3), 5) == 0;
                        simalloc::st().refuse_next = refuse;
                        try
                        {
                            x.reserve(want);
                            if (refuse) violate("C02/harness", "refused allocation went unnoticed");
                        }
                        catch (const std::bad_alloc &)
                        {
                            if (x.data() != data0) violate("C02/refused-allocation", "after a refused reserve(%zu) the vector points to another block", want);
                        }
                        simalloc::st().refuse_next = false;
                        break;
                    }
                    case V_CLEAR:
                    {
                        long h0 = dtor_count<E>();
                        x.clear();
                        expect_destroyed(h0, mx.size(), "clear");
                        mx.clear();
                        break;
                    }
                    case V_COPY_CTOR:
                    {
                        long h0 = dtor_count<E>();
                        size_t had = m[u].size();
                        v[u].reset(new Vec(x));
                        expect_destroyed(h0, had, "destruction");
                    }
                        m[u] = mx;
                        if (mx.empty()) probe("assign_from_empty");
                        break;
                    case V_MOVE_CTOR:
                        v[u].reset(new Vec(std::move(x)));
                        m[u] = mx;
                        mx.clear();
                        break;
                    case V_COPY_ASSIGN:
                        *v[u] = x;
                        m[u] = mx;
                        if (mx.empty()) probe("assign_from_empty");
                        probe("copy_assign");
                        break;
                    case V_SELF_ASSIGN:
                    {
                        Vec &alias = x;
                        x = alias;
                        probe("self_assign");
                        break;
                    }
                    case V_MOVE_ASSIGN:
                        *v[u] = std::move(x);
                        m[u] = mx;
                        mx.clear();
                        break;
                    case V_COMPARE:
                    {
                        bool eq = (*v[0] == *v[1]), ne = (*v[0] != *v[1]);
                        if (eq != (m[0] == m[1]) || ne == eq) violate("C02/compare-eq", "operator== gives %d, std::vector gives %d", (int)eq, (int)(m[0] == m[1]));
#ifndef C02_TWIN
                        bool lt = (*v[0] < *v[1]);
                        if (lt != (m[0] < m[1])) violate("C02/compare-lt", "operator< gives %d, std::vector gives %d", (int)lt, (int)(m[0] < m[1]));
#endif
                        if (!(x == x)) violate("C02/compare-eq", "a vector does not compare equal to itself");
                        {
                            // ... unless one of its elements does not equal itself: equality is element-wise, as for std::vector
                            igris::vector<double, AllocX<double>> nv;
                            std::vector<double> sn;
                            for (int q = 0; q < 1 + val % 3; q++) { nv.push_back(q == val % 2 ? std::numeric_limits<double>::quiet_NaN() : 1.5 * q); sn.push_back(q == val % 2 ? std::numeric_limits<double>::quiet_NaN() : 1.5 * q); }
                            if ((nv == nv) != (sn == sn) || (nv != nv) != (sn != sn))
                                violate("C02/compare-eq", "a vector holding a NaN compared with itself: == gives %d and != gives %d, std::vector gives %d and %d", (int)(nv == nv), (int)(nv != nv), (int)(sn == sn), (int)(sn != sn));
                        }
                        if (eq && !m[0].empty()) probe("equal_non_empty_vectors_compared");
                        {
                            // a separately built vector with equal elements compares equal; with one element changed it does not
                            Vec y;
                            for (int e : mx) y.push_back(E(e));
                            if (!(x == y) || (x != y) || !(y == x)) violate("C02/compare-eq", "two vectors with equal elements (size %zu) do not compare equal", mx.size());
                            if (!mx.empty())
                            {
                                size_t j = (size_t)mod(arg(o, 2), (int64_t)mx.size());
                                y[j] = E(mx[j] + 1);
                                if ((x == y) || !(x != y)) violate("C02/compare-eq", "vectors differing in element %zu compare equal", j);
                                probe("equal_non_empty_vectors_compared");
                            }
                        }
                        break;
                    }
                    case V_ALGO:
                    {
                        // the vector handed to the standard library: its iterators are plain random-access iterators, its
                        // value_type / push_back are what std::back_inserter needs, swap is found for it
                        size_t n0 = mx.size();
                        switch (val % 7)
                        {
                        case 0: std::sort(x.begin(), x.end()); std::sort(mx.begin(), mx.end()); break;
                        case 1: std::reverse(x.begin(), x.end()); std::reverse(mx.begin(), mx.end()); break;
                        case 2:
                            if (n0)
                            {
                                size_t k2 = (size_t)mod(arg(o, 2), (int64_t)n0);
                                std::rotate(x.begin(), x.begin() + k2, x.end());
                                std::rotate(mx.begin(), mx.begin() + k2, mx.end());
                            }
                            break;
                        case 3:
                        {
                            int probe_v = n0 ? mx[(size_t)mod(arg(o, 2), (int64_t)n0)] : val;
                            auto it = std::find(x.begin(), x.end(), E(probe_v));
                            auto jt = std::find(mx.begin(), mx.end(), probe_v);
                            if ((size_t)std::distance(x.begin(), it) != (size_t)std::distance(mx.begin(), jt) || (size_t)std::distance(x.begin(), x.end()) != n0)
                                violate("C02/std-algorithm", "std::find / std::distance over begin()..end(): position %td of %td, std::vector gives %td of %zu", std::distance(x.begin(), it), std::distance(x.begin(), x.end()), std::distance(mx.begin(), jt), n0);
                            break;
                        }
                        case 4:
                        {
                            Vec &y = *v[u];
                            if (m[u].size() + n0 > 200) break;
                            std::copy(x.begin(), x.end(), std::back_inserter(y));
                            m[u].insert(m[u].end(), mx.begin(), mx.end());
                            break;
                        }
                        case 5:
                        {
                            using std::swap;
                            swap(*v[0], *v[1]);
                            std::swap(m[0], m[1]);
                            break;
                        }
                        default:
                        {
                            long a = 0, b = 0;
                            for (const E &e : x) a += val_of(e);
                            for (int e : mx) b += e;
                            size_t cnt = (size_t)std::count_if(x.begin(), x.end(), [&](const E &e) { return val_of(e) >= val; });
                            size_t cnt2 = (size_t)std::count_if(mx.begin(), mx.end(), [&](int e) { return e >= val; });
                            if (a != b || cnt != cnt2) violate("C02/std-algorithm", "range-for / std::count_if over the vector give sum %ld count %zu, std::vector %ld / %zu", a, cnt, b, cnt2);
                            break;
                        }
                        }
                        probe("handed_to_a_standard_algorithm");
                        break;
                    }
                    case V_AT:
                    {
#ifndef C02_TWIN
                        size_t i = (size_t)mod(arg(o, 2), (int64_t)mx.size() + 3);
                        bool threw = false;
                        int got = 0;
                        try
                        {
                            got = val_of(x.at(i));
                        }
                        catch (const std::out_of_range &)
                        {
                            threw = true;
                        }
                        if (threw != (i >= mx.size())) violate("C02/at", "at(%zu) on size %zu: threw=%d", i, mx.size(), (int)threw);
                        if (!threw && got != mx[i]) violate("C02/at", "at(%zu) = %d, std::vector has %d", i, got, mx[i]);
                        {
                            // the const overloads answer the same
                            const Vec &cx = x;
                            bool cthrew = false;
                            int cgot = 0;
                            try
                            {
                                cgot = val_of(cx.at(i));
                            }
                            catch (const std::out_of_range &)
                            {
                                cthrew = true;
                            }
                            if (cthrew != threw || (!threw && cgot != got)) violate("C02/at", "const at(%zu) on size %zu: threw=%d value %d, the non-const overload threw=%d value %d", i, mx.size(), (int)cthrew, cgot, (int)threw, got);
                            if (!mx.empty())
                            {
                                size_t j = i % mx.size();
                                if (val_of(cx[j]) != mx[j] || val_of(cx.front()) != mx.front() || val_of(cx.back()) != mx.back() || cx.data() != x.data())
                                    violate("C02/index@const", "const operator[] / front / back / data differ from std::vector");
                            }
                            size_t q = 0;
                            for (auto ci = cx.begin(); ci != cx.end(); ++ci, ++q)
                                if (val_of(*ci) != mx[q]) violate("C02/sequence@const", "const iteration: element %zu differs", q);
                            if (q != mx.size()) violate("C02/sequence@const", "const iteration yields %zu elements of %zu", q, mx.size());
                            // igris' rbegin()/rend() are plain pointers to the last element / one before the first, walked with --
                            q = mx.size();
                            for (auto ri = x.rbegin(); ri != x.rend(); --ri)
                            {
                                if (q == 0) violate("C02/sequence@reverse", "reverse walk does not stop at rend()");
                                --q;
                                if (val_of(*ri) != mx[q]) violate("C02/sequence@reverse", "reverse walk: element %zu differs", q);
                            }
                            if (q != 0 || cx.rbegin() != x.rbegin() || cx.rend() != x.rend()) violate("C02/sequence@reverse", "reverse walk visited %zu of %zu elements", mx.size() - q, mx.size());
                        }
#endif
                        break;
                    }
                    case V_INSERT_SORTED:
                    {
#ifndef C02_TWIN
                        if (!std::is_sorted(mx.begin(), mx.end())) break;
                        E e(val);
                        x.insert_sorted(e);
                        mx.insert(std::upper_bound(mx.begin(), mx.end(), val), val);
                        probe("insert_sorted");
#endif
                        break;
                    }
                    case V_CTOR_N:
                    {
                        size_t n = (size_t)mod(arg(o, 2), 12);
                        // sizes around a multiple of 256, then appended to: the vector is exactly full when the 256th / 512th element comes
                        bool around256 = mod(arg(o, 3), 24) == 7;
                        if (around256)
                        {
                            static const size_t B[6] = {254, 255, 256, 257, 511, 512};
                            n = B[mod(arg(o, 2), 6)];
                            probe("vector_around_256_elements");
                        }
                        v[u].reset(new Vec(n));
                        m[u].assign(n, 0);
                        if (around256)
                            for (int j = 0; j < 3; j++)
                            {
                                if (j & 1) v[u]->push_back(E(val + j));
                                else v[u]->emplace_back(val + j);
                                m[u].push_back(val + j);
                            }
                        break;
                    }
                    case V_CTOR_RANGE:
                    {
                        size_t cnt = (size_t)mod(arg(o, 2), 9);
                        std::vector<E> src;
                        for (size_t i = 0; i < cnt; i++) src.emplace_back(val + (int)i);
#ifdef C02_TWIN
                        v[u].reset(new Vec(src.data(), src.data() + cnt)); // (the twin's distance() only takes pointers)
#else
                        if (val % 2) v[u].reset(new Vec(src.begin(), src.end()));
                        else v[u].reset(new Vec(src.data(), src.data() + cnt));
#endif
                        m[u].clear();
                        for (size_t i = 0; i < cnt; i++) m[u].push_back(val + (int)i);
                        // a range constructor copies: the source range is what it was
                        for (size_t i = 0; i < cnt; i++)
                            if (!(src[i] == E(val + (int)i))) violate("C02/ctor-range-source", "after vector(first, last) over a range of %zu elements the source element %zu no longer holds its value", cnt, i);
                        if (val % 3 == 2 && v[1 - u])
                        {
                            // ... also when the range is begin()/end() of another (non-const) igris::vector: that one is compared with
                            // its reference right after this operation like after every other
                            Vec &other = *v[1 - u];
                            v[u].reset(new Vec(other.begin(), other.end()));
                            m[u] = m[1 - u];
                            probe("constructed_from_the_range_of_another_vector");
                        }
                        break;
                    }
                    case V_CTOR_ILIST:
                    {
#ifndef C02_TWIN
                        if (val % 2) v[u].reset(new Vec({E(val), E(val + 1), E(val + 2)}));
                        else
                        {
                            // the list handed over as a named object (a wrapper forwarding its own constructor argument): an lvalue
                            std::initializer_list<E> named = {E(val), E(val + 1), E(val + 2)};
                            v[u].reset(new Vec(named));
                            probe("constructed_from_a_named_initializer_list");
                        }
                        m[u] = {val, val + 1, val + 2};
#endif
                        break;
                    }
                    }
                    if (x.capacity() != cap0 && cap0 != 0 && x.data() != data0) realloc_seen = true;
                    tr.ev("%c.%s -> size %zu/%zu", w ? 'B' : 'A', V_NAME[k], m[0].size(), m[1].size());
                    check(V_NAME[k]);
                }
            }
            check_deferred();
            if (tracked_elems) tracked::check_balance();
            if (simalloc::live_blocks() != 0) violate("C02/allocator-balance", "%zu blocks still allocated after every vector was destroyed", simalloc::live_blocks());
            res.nontrivial = realloc_seen && mid_edit;
            return res;
        }
    };

#ifndef C02_TWIN
    // ---------------------------------------------------------------- flat_map / flat_set
    enum { M_INDEX, M_AT, M_FIND, M_COUNT, M_INSERT, M_EMPLACE, M_CLEAR, M_COPY, S_INSERT, S_COUNT, S_CLEAR, M_ILIST, M_SWAP, M_CAPACITY, M_CONST, M_N };
    struct FlatWorld : World
    {
        const char *name() const override { return "flat_map+flat_set"; }
        unsigned weight(Tier) const override { return 2; }
        Plan generate(Rng &r, Tier tier) override
        {
            Plan p;
            p.cfg = {(int64_t)r.below(4), (int64_t)r.below(2), (int64_t)r.below(4)}; // cfg[2]: direction and bucket width of the run-time ordered flat_set
            int n = (int)r.range(3, tier == THOROUGH ? 80 : 40);
            if (r.chance(1, 40)) n *= 25; // a long history: what only accumulates over hundreds or thousands of operations
            int keys = (int)r.range(2, 12);
            for (int i = 0; i < n; i++) p.ops.push_back({(int64_t)r.below(M_N), (int64_t)r.below(keys), (int64_t)r.below(1000)});
            return p;
        }
        Result execute(const Plan &p, Trace &tr) override
        {
            Result res;
            simalloc::st().reset((int)p.c(0), p.c(1) != 0);
            bool hit = false, miss = false;
            {
                typedef igris::flat_map<int, int> FM; // (its iterator typedefs only fit the default allocator)
                typedef igris::flat_set<int, std::less<int>, simalloc::Alloc<int>> FS;
                // the same set under other orders: descending, and by last decimal digit then value (a projection order)
                struct ByDigit
                {
                    bool operator()(int a, int b) const
                    {
                        int da = ((a % 10) + 10) % 10, db = ((b % 10) + 10) % 10;
                        return da != db ? da < db : a < b;
                    }
                };
                // an order chosen at run time: the comparator object handed to the constructor carries a direction and a bucket
                // width (keys in one bucket are equivalent, as in a case-insensitive or rounded order)
                struct Directed
                {
                    bool descending = false;
                    int width = 1;
                    static int fl(int a, int w) { return a >= 0 ? a / w : -((-a + w - 1) / w); }
                    bool operator()(int a, int b) const { return descending ? fl(b, width) < fl(a, width) : fl(a, width) < fl(b, width); }
                };
                Directed dir;
                dir.descending = mod(p.c(2, 0), 2) != 0;
                dir.width = mod(p.c(2, 0) / 2, 2) ? 4 : 1;
                igris::flat_set<int, Directed> fsr(dir);
                std::set<int, Directed> msr(dir);
                igris::flat_set<int, std::greater<int>, simalloc::Alloc<int>> fsg;
                std::set<int, std::greater<int>> msg;
                igris::flat_set<int, ByDigit> fsd;
                std::set<int, ByDigit> msd;
                FM fm;
                FS fs;
                std::map<int, int> mm;
                std::set<int> ms;
                // maps whose key type is narrower than the arguments their callers pass (a byte key looked up with an int, a float key
                // with a double): the argument is converted to the key type first, as in std::map
                igris::flat_map<uint8_t, int> fm8;
                std::map<uint8_t, int> mm8;
                igris::flat_map<float, int> fmf;
                std::map<float, int> mmf;
                for (auto &o : p.ops)
                {
                    int k = (int)mod(arg(o, 0), M_N);
                    int key = (int)mod(arg(o, 1), 16) - 3, val = (int)mod(arg(o, 2), 1000);
                    switch (k)
                    {
                    case M_INDEX:
                    {
                        // reading through operator[] creates a default entry in both
                        int a = fm[key], b = mm[key];
                        if (a != b) violate("C02/flat_map-index", "operator[](%d) = %d, std::map gives %d", key, a, b);
                        if (val % 2) { fm[key] = val; mm[key] = val; }
                        if (val % 3 == 0)
                        {
                            // the key of a lookup is an element of the map itself (parent[parent[x]]): the argument refers into the
                            // storage that the insertion of a missing key may move
                            int c = fm[fm[key]], d = mm[mm[key]];
                            if (c != d) violate("C02/flat_map-index", "m[m[%d]] = %d, std::map gives %d", key, c, d);
                            probe("lookup_key_is_a_mapped_value");
                        }
                        break;
                    }
                    case M_AT:
                    {
                        bool t1 = false, t2 = false;
                        int a = 0, b = 0;
                        try { a = fm.at(key); } catch (const std::out_of_range &) { t1 = true; }
                        try { b = mm.at(key); } catch (const std::out_of_range &) { t2 = true; }
                        if (t1 != t2 || a != b) violate("C02/flat_map-at", "at(%d): threw=%d value=%d, std::map threw=%d value=%d", key, (int)t1, a, (int)t2, b);
                        const FM &cfm = fm;
                        bool t3 = false;
                        try { a = cfm.at(key); } catch (const std::out_of_range &) { t3 = true; }
                        if (t3 != t2 || a != b) violate("C02/flat_map-at", "const at(%d) differs", key);
                        (t2 ? miss : hit) = true;
                        break;
                    }
                    case M_FIND:
                    {
                        auto it = fm.find(key);
                        auto jt = mm.find(key);
                        if ((it == fm.end()) != (jt == mm.end())) violate("C02/flat_map-find", "find(%d) found=%d, std::map found=%d", key, (int)(it != fm.end()), (int)(jt != mm.end()));
                        if (jt != mm.end() && (it->first != key || it->second != jt->second)) violate("C02/flat_map-find", "find(%d) gives (%d,%d), std::map (%d,%d)", key, it->first, it->second, jt->first, jt->second);
                        break;
                    }
                    case M_COUNT:
                        if (fm.count(key) != mm.count(key)) violate("C02/flat_map-count", "count(%d) = %zu, std::map %zu", key, fm.count(key), mm.count(key));
                        break;
                    case M_INSERT:
                    {
                        auto it = fm.insert(std::make_pair(key, val));
                        auto jr = mm.insert(std::make_pair(key, val));
                        if (it->first != key || it->second != jr.first->second) violate("C02/flat_map-insert", "insert(%d,%d) leaves (%d,%d), std::map has value %d", key, val, it->first, it->second, jr.first->second);
                        break;
                    }
                    case M_EMPLACE:
                    {
                        auto ir = fm.emplace(key, val);
                        auto jr = mm.emplace(key, val);
                        if (ir.second != jr.second || ir.first->second != jr.first->second) violate("C02/flat_map-emplace", "emplace(%d,%d): inserted=%d, std::map inserted=%d", key, val, (int)ir.second, (int)jr.second);
                        {
                            int wide = (key & 0xFF) + 256 * (val % 3); // an int that is the byte key (key & 0xFF) once converted
                            auto i8 = fm8.emplace(wide, val);
                            auto j8 = mm8.emplace(wide, val);
                            if (i8.second != j8.second || i8.first->first != j8.first->first || i8.first->second != j8.first->second || fm8.size() != mm8.size() || fm8.count((uint8_t)wide) != 1)
                                violate("C02/flat_map-emplace", "flat_map<uint8_t,int>::emplace(%d,%d): inserted=%d key=%d size=%zu count=%zu, std::map inserted=%d key=%d size=%zu", wide, val, (int)i8.second, (int)i8.first->first,
                                        fm8.size(), fm8.count((uint8_t)wide), (int)j8.second, (int)j8.first->first, mm8.size());
                            double dk = key * 0.1; // not representable as a float: the stored key is the rounded value
                            auto ifl = fmf.emplace(dk, val);
                            auto jfl = mmf.emplace(dk, val);
                            if (ifl.second != jfl.second || ifl.first->first != jfl.first->first || ifl.first->second != jfl.first->second || fmf.size() != mmf.size() || fmf.count((float)dk) != 1)
                                violate("C02/flat_map-emplace", "flat_map<float,int>::emplace(%.17g,%d): inserted=%d size=%zu count=%zu, std::map inserted=%d size=%zu", dk, val, (int)ifl.second, fmf.size(), fmf.count((float)dk),
                                        (int)jfl.second, mmf.size());
                            if (wide > 255) probe("key_argument_wider_than_the_key_type");
                            if (val % 7 == 0) { fm8[(uint8_t)wide] = val; mm8[(uint8_t)wide] = val; int x = fm8[wide & 0xFF], y = mm8[wide & 0xFF]; if (x != y) violate("C02/flat_map-index", "flat_map<uint8_t,int>[%d] = %d, std::map %d", wide & 0xFF, x, y); }
                        }
                        break;
                    }
                    case M_CLEAR:
                        if (val % 5 == 0) { fm.clear(); mm.clear(); }
                        break;
                    case M_COPY:
                    {
                        FM c(fm);
                        if (!(c == fm) || c != fm) violate("C02/flat_map-copy", "a copy does not compare equal");
                        fm = c;
                        break;
                    }
                    case S_INSERT:
                        fs.insert(key);
                        ms.insert(key);
                        fsg.insert(key);
                        msg.insert(key);
                        fsd.insert(key * 7 - 5);
                        msd.insert(key * 7 - 5);
                        fsr.insert(key);
                        msr.insert(key);
                        probe("flat_set_custom_order");
                        break;
                    case S_COUNT:
                        if (fs.count(key) != ms.count(key)) violate("C02/flat_set-count", "count(%d) = %zu, std::set %zu", key, fs.count(key), ms.count(key));
                        break;
                    case M_ILIST:
                    {
                        // construction from an initializer list (keys may repeat: std::map keeps the first of them)
                        int k2 = (int)mod(arg(o, 2), 16) - 3, k3 = (int)mod(arg(o, 2) / 16, 16) - 3;
                        if (k2 == key || k3 == key || k2 == k3) probe("initializer_list_with_repeated_key");
                        fm = FM({{key, val}, {k2, val + 1}, {k3, val + 2}});
                        mm = std::map<int, int>({{key, val}, {k2, val + 1}, {k3, val + 2}});
                        break;
                    }
                    case M_SWAP:
                    {
                        FM other({{100 + key, val}});
                        std::map<int, int> mother({{100 + key, val}});
                        fm.swap(other);
                        mm.swap(mother);
                        if (other.size() != mother.size()) violate("C02/flat_map-swap", "after swap the other map holds %zu pairs, std::map %zu", other.size(), mother.size());
                        if (val % 3) { fm.swap(other); mm.swap(mother); }
                        break;
                    }
                    case M_CAPACITY:
                    {
                        fm.reserve((size_t)val % 40);
                        if (fm.capacity() < (size_t)val % 40 || fm.capacity() < fm.size()) violate("C02/flat_map-capacity", "capacity %zu after reserve(%d) with %zu pairs", fm.capacity(), val % 40, fm.size());
                        if (val % 2) fm.shrink_to_fit();
                        if (fm.max_size() < fm.size()) violate("C02/flat_map-capacity", "max_size() < size()");
                        break;
                    }
                    case M_CONST:
                    {
                        // the const half of the interface and the reverse iterators
                        const FM &c = fm;
                        auto jt = mm.find(key);
                        auto it = c.find(key);
                        if ((it == c.end()) != (jt == mm.end())) violate("C02/flat_map-find", "const find(%d) found=%d, std::map found=%d", key, (int)(it != c.end()), (int)(jt != mm.end()));
                        if (jt != mm.end() && (it->second != jt->second || c[key] != jt->second)) violate("C02/flat_map-find", "const find / operator[] (%d) differ from std::map", key);
                        std::map<int, int> s1, s2, s3;
                        for (auto i = c.begin(); i != c.end(); ++i) s1[i->first] = i->second;
                        for (auto i = c.cbegin(); i != c.cend(); ++i) s2[i->first] = i->second;
                        size_t n = 0;
                        for (auto i = fm.rbegin(); i != fm.rend(); ++i, ++n) s3[i->first] = i->second;
                        if (s1 != mm || s2 != mm || s3 != mm || n != mm.size()) violate("C02/flat_map-iteration", "const / reverse iteration does not yield the stored pairs");
                        n = 0;
                        for (auto i = c.crbegin(); i != c.crend(); ++i) n++;
                        for (auto i = c.rbegin(); i != c.rend(); ++i) n++;
                        if (n != 2 * mm.size()) violate("C02/flat_map-iteration", "const reverse iteration yields %zu pairs for 2 x %zu", n, mm.size());
                        const FS &cs = fs;
                        n = 0;
                        for (auto i = cs.begin(); i != fs.end(); ++i) n++;
                        if (n != ms.size() || (cs.cbegin() == fs.end()) != ms.empty()) violate("C02/flat_set-iteration", "const iteration of flat_set yields %zu keys, std::set holds %zu", n, ms.size());
                        (void)fs.get_allocator();
                        break;
                    }
                    case S_CLEAR:
                        if (val % 5 == 0) { fs.clear(); ms.clear(); fsg.clear(); msg.clear(); fsd.clear(); msd.clear(); fsr.clear(); msr.clear(); }
                        break;
                    }
                    if (fm.size() != mm.size() || fm.empty() != mm.empty()) violate("C02/flat_map-size", "size()=%zu, std::map %zu", fm.size(), mm.size());
                    if (fs.size() != ms.size()) violate("C02/flat_set-size", "size()=%zu, std::set %zu", fs.size(), ms.size());
                    for (auto &kv : mm)
                        if (fm.count(kv.first) != 1 || fm.at(kv.first) != kv.second) violate("C02/flat_map-content", "key %d lost or changed", kv.first);
                    {
                        // iteration (in whatever order) yields exactly the stored pairs, once each
                        std::map<int, int> seen;
                        size_t n = 0;
                        for (auto it = fm.begin(); it != fm.end(); ++it, ++n) seen[it->first] = it->second;
                        if (n != mm.size() || seen != mm) violate("C02/flat_map-iteration", "begin()..end() yields %zu pairs / %zu distinct keys, std::map holds %zu", n, seen.size(), mm.size());
                        std::set<int> sseen;
                        n = 0;
                        for (auto it = fs.begin(); it != fs.end(); ++it, ++n) sseen.insert(*it);
                        if (n != ms.size() || sseen != ms) violate("C02/flat_set-iteration", "flat_set iteration yields %zu keys, std::set holds %zu", n, ms.size());
                    }
                    for (int q = -3; q < 13; q++)
                    {
                        if (fs.count(q) != ms.count(q)) violate("C02/flat_set-content", "count(%d) differs from std::set", q);
                        if (fsg.count(q) != msg.count(q)) violate("C02/flat_set-content-custom-order", "flat_set<int, std::greater>: count(%d) = %zu, std::set gives %zu", q, fsg.count(q), msg.count(q));
                        if (fsd.count(q * 7 - 5) != msd.count(q * 7 - 5)) violate("C02/flat_set-content-custom-order", "flat_set with a projection order: count(%d) differs from std::set", q * 7 - 5);
                    }
                    for (int q = -3; q < 13; q++)
                        if (fsr.count(q) != msr.count(q)) violate("C02/flat_set-content-custom-order", "flat_set built with a comparator object (%s, bucket width %d): count(%d) = %zu, std::set gives %zu", dir.descending ? "descending" : "ascending", dir.width, q, fsr.count(q), msr.count(q));
                    if (fsr.size() != msr.size()) violate("C02/flat_set-size-custom-order", "flat_set built with a comparator object: size %zu, std::set %zu", fsr.size(), msr.size());
                    if (fsg.size() != msg.size() || fsd.size() != msd.size()) violate("C02/flat_set-size-custom-order", "flat_set with a non-default order: size differs from std::set");
                    tr.ev("op %d key %d -> %zu/%zu", k, key, mm.size(), ms.size());
                    check_deferred();
                }
            }
            if (simalloc::live_blocks() != 0) violate("C02/allocator-balance", "%zu blocks still allocated after the containers were destroyed", simalloc::live_blocks());
            res.nontrivial = hit && miss;
            return res;
        }
    };
#endif
}

namespace
{
    // sizes beyond 16 bits: a vector of 70000 elements built by push_back, edited in the middle, compared with std::vector
    struct BigVecWorld : World
    {
        const char *name() const override { return PROP_WORLD "<int> with more than 65535 elements"; }
        unsigned weight(Tier) const override { return 1; }
        Plan generate(Rng &r, Tier) override
        {
            Plan p;
            p.cfg = {(int64_t)r.below(4), (int64_t)r.below(2)};
            int n = (int)r.range(2, 5);
            for (int i = 0; i < n; i++) p.ops.push_back({(int64_t)r.below(4), (int64_t)r.below(70000), (int64_t)r.below(1000)});
            return p;
        }
        Result execute(const Plan &p, Trace &tr) override
        {
            Result res;
            simalloc::st().reset((int)p.c(0), p.c(1) != 0);
            {
                typedef igris::vector<int, AllocX<int>> Vec;
                Vec x;
                std::vector<int> m;
                x.reserve(66000); // (the vector grows one slot at a time: 70000 reallocations would only test patience)
                for (int i = 0; i < 66000; i++) { x.push_back(i * 7); m.push_back(i * 7); }
                auto same = [&](const char *when) {
                    if (x.size() != m.size()) violate("C02/size@big", "%s: a vector of %zu elements reports size %zu", when, m.size(), x.size());
                    for (size_t i = 0; i < m.size(); i += (i < 66000 - 40 && i > 40 && i % 4096 ? 511 : 1))
                        if (x[i] != m[i]) violate("C02/sequence@big", "%s: element %zu of %zu is %d, std::vector has %d", when, i, m.size(), x[i], m[i]);
                };
                same("filled");
                for (auto &o : p.ops)
                {
                    int k = (int)mod(arg(o, 0), 4);
                    size_t pos = (size_t)mod(arg(o, 1), (int64_t)m.size());
                    int val = (int)mod(arg(o, 2), 1000);
                    if (k == 0) { x.insert((Vec::const_iterator)(x.data() + pos), val); m.insert(m.begin() + pos, val); }
                    else if (k == 1) { size_t e = std::min(m.size(), pos + 3); x.erase(x.begin() + pos, x.begin() + e); m.erase(m.begin() + pos, m.begin() + e); }
                    else if (k == 2) { x.resize(65536 + pos % 300); m.resize(65536 + pos % 300); }
                    else { Vec c(x); if (!(c == x) || c.size() != m.size()) violate("C02/compare-eq", "a copy of a vector of %zu elements differs from it", m.size()); }
                    tr.ev("big op %d -> %zu", k, m.size());
                    same("after op");
                }
                probe("vector_over_65535_elements");
            }
            if (simalloc::live_blocks() != 0) violate("C02/allocator-balance", "%zu blocks still allocated after the vector was destroyed", simalloc::live_blocks());
            res.nontrivial = true;
            return res;
        }
    };
}

int main(int argc, char **argv)
{
    VecWorld<int> wi(PROP_WORLD "<int>", false);
    VecWorld<tracked::T> wt(PROP_WORLD "<Tracked>", true);
    VecWorld<Loose> wl(PROP_WORLD "<trivially-copyable-with-own-equality>", false);
    VecWorld<Handle> wh(PROP_WORLD "<implicit-copy-with-own-destructor>", false);
    VecWorld<Nest> wn(PROP_WORLD "<value-constructible-from-a-list-of-itself>", false);
    VecWorld<SelfRef> wsr(PROP_WORLD "<element-pointing-into-itself>", false);
    VecWorld<VecElem> wvv(PROP_WORLD "<vector-of-vectors>", false);
    Harness h;
    h.property = "C02";
    h.worlds = {&wi, &wt};
#ifndef C02_TWIN
    FlatWorld fw;
    h.worlds.push_back(&fw);
    h.real = {"igris/container/vector.h", "igris/util/ctrdtr.h", "igris/container/flat_map.h", "igris/container/flat_set.h"};
#else
    h.real = {"igris/container/std_portable.h (igris::vector twin, igris::allocator replaced through the Allocator parameter)"};
#endif
    h.worlds.push_back(&wl);
    h.worlds.push_back(&wh);
    h.worlds.push_back(&wn);
    BigVecWorld wb;
    h.worlds.push_back(&wb);
    h.worlds.push_back(&wsr);
    h.worlds.push_back(&wvv);
    h.stub = {"SimAlloc behind the Allocator parameter (exact-size blocks, seed-chosen fill and reuse)", "Tracked element type (lifetime registry)", "std::vector / std::map / std::set reference"};
    return harness_main(h, argc, argv);
}
KIT_ASAN_OPTIONS()
