/* C01: the C list headers expanded by the C compiler (sizeof of character literals, typeof, implicit conversions and
   statement expressions differ between the two languages); the C++ harness calls these next to its own expansions. */
#include "C01_citem.h"

static int c_less(struct CItem *a, struct CItem *b) { return a->key < b->key; }

int c01_c_entries(struct dlist_head *h, int *out, int max)
{
    struct CItem *pos;
    int n = 0;
    dlist_for_each_entry(pos, h, lnk)
    {
        if (n >= max) return -1;
        out[n++] = pos->id;
    }
    return n;
}
int c01_c_entries_rev(struct dlist_head *h, int *out, int max)
{
    struct CItem *pos;
    int n = 0;
    dlist_for_each_entry_reverse(pos, h, lnk)
    {
        if (n >= max) return -1;
        out[n++] = pos->id;
    }
    return n;
}
struct CItem *c01_c_first(struct dlist_head *h) { return dlist_first_entry(h, struct CItem, lnk); }
struct CItem *c01_c_last(struct dlist_head *h) { return dlist_last_entry(h, struct CItem, lnk); }
struct CItem *c01_c_next(struct CItem *it) { return dlist_next_entry(it, lnk); }
struct CItem *c01_c_prev(struct CItem *it) { return dlist_prev_entry(it, lnk); }
int c01_c_size(struct dlist_head *h) { return dlist_size(h); }
int c01_c_in(struct dlist_head *node, struct dlist_head *h) { return dlist_in(node, h); }
int c01_c_check(struct dlist_head *h, int bound) { return dlist_check(h, bound); }
int c01_c_is_correct(struct dlist_head *h) { return dlist_is_correct(h); }
void c01_c_add_next(struct dlist_head *node, struct dlist_head *pos) { dlist_add_next(node, pos); }
void c01_c_add_prev(struct dlist_head *node, struct dlist_head *pos) { dlist_add_prev(node, pos); }
void c01_c_del_init(struct dlist_head *node) { dlist_del_init(node); }
void c01_c_move(struct dlist_head *node, struct dlist_head *head) { dlist_move(node, head); }
void c01_c_move_tail(struct dlist_head *node, struct dlist_head *head) { dlist_move_tail(node, head); }
void c01_c_move_sorted(struct CItem *it, struct dlist_head *head) { dlist_move_sorted(it, head, lnk, c_less); }

int c01_c_slist_entries(struct slist_head *h, int *out, int max)
{
    struct SItem *pos;
    int n = 0;
    slist_for_each_entry(pos, h, sl)
    {
        if (n >= max) return -1;
        out[n++] = pos->id;
    }
    return n;
}
struct SItem *c01_c_slist_pop_first_entry(struct slist_head *h) { return slist_pop_first_entry(h, struct SItem, sl); }
int c01_c_slist_in(struct slist_head *h, struct slist_head *node) { return slist_in(h, node); }
int c01_c_hlist_entries(struct hlist_head *h, int *out, int max)
{
    struct SItem *pos;
    int n = 0;
    hlist_for_each_entry(pos, h, hn)
    {
        if (n >= max) return -1;
        out[n++] = pos->id;
    }
    return n;
}

#define IDIOM(name) c01_c_##name
#define IDIOM_LINKAGE
#include "C01_idioms.inc"
