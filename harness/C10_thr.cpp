// C10 — threaded heap configuration (engine E1, DESIGN.md 5 C10): the heap's clients are real threads under the
// serialising thread simulator. malloc/free/realloc take the (recursive) system lock; realloc re-enters it through
// malloc/free. Oracles: the shadow map of live blocks (no overlap, inside the arena, aligned), per-thread byte patterns
// (content untouched, realloc prefix kept), happens-before race detection on the arena headers, the free list and the
// blocks, deadlock detection, and the heap returning to its initial break when every client has finished.
// This TU is not instrumented and includes no igris header.
#include "../sim/kit.h"
#include "../sim/thr/thrsim.h"

#include <map>

using namespace kit;

extern "C"
{
    void *tprog_malloc(size_t n);
    void tprog_free(void *p);
    void *tprog_realloc(void *p, size_t n);
    void tprog_fill(char *p, size_t n, int tag);
    long tprog_verify(const char *p, size_t n, int tag);
}
enum { ARENA = 1 << 17 };
alignas(64) char _heap_start[ARENA + 64];
extern char *__brkval;
extern char *__malloc_heap_start;
struct __freelist;
extern struct __freelist *__flp __attribute__((weak));
extern int __allocation_counter __attribute__((weak));

namespace
{
    const size_t SIZES[] = {0, 1, 8, 9, 16, 24, 63, 64, 65, 100, 128, 200, 500};
    enum { NS = sizeof SIZES / sizeof SIZES[0] };
    enum { OP_SCHED = 0, OP_ACT = 1 };
    struct Blk
    {
        char *p;
        size_t size;
        int tag, owner;
    };
    struct ThrHeapWorld : World
    {
        const char *name() const override { return "lin-heap-threads"; }
        Plan generate(Rng &r, Tier tier) override
        {
            Plan p;
            int nt = (int)r.range(2, 4);
            int mode = r.chance(1, 4) ? 1 : 0;
            int memk = (int)r.pick<int64_t>({0, 0, 0, 5, 17, 41});
            p.cfg = {nt, mode, memk};
            Op s = {OP_SCHED};
            if (mode == 0)
            {
                int style = (int)r.below(3);
                int n = tier == THOROUGH ? 800 : 400;
                for (int i = 0; i < n; i++)
                    s.push_back(style == 0 ? (int64_t)r.below(5) : (style == 1 ? (r.chance(2, 3) ? 0 : (int64_t)r.below(5)) : (r.chance(9, 10) ? 0 : (int64_t)r.below(5))));
            }
            else
            {
                for (int i = 0; i < thr::MAXT; i++) s.push_back((int64_t)r.below(100));
                int d = (int)r.range(0, 4);
                for (int i = 0; i < d; i++) s.push_back((int64_t)r.range(1, 200));
            }
            p.ops.push_back(s);
            int per = (int)r.range(2, tier == THOROUGH ? 14 : 9);
            for (int t = 0; t < nt; t++)
                for (int k = 0; k < per; k++)
                {
                    unsigned c = (unsigned)r.below(100);
                    int kind = c < 45 ? 0 : (c < 70 ? 1 : 2); // malloc / free / realloc
                    p.ops.push_back({OP_ACT, t, kind, (int64_t)r.below(NS), r.chance(1, 2) ? -1 : (int64_t)r.below(20)});
                }
            return p;
        }
        std::string describe(const Plan &p) override
        {
            int nt = (int)mod(p.c(0) - 2, 3) + 2;
            std::string s = "threads=" + std::to_string(nt) + " sched=" + (mod(p.c(1), 2) ? "pct" : "choices") + " mem_preempt_every=" + std::to_string(mod(p.c(2), 50)) + " actions:";
            static const char *kn[] = {"malloc", "free", "realloc"};
            for (auto &o : p.ops)
                if (arg(o, 0) == OP_ACT)
                    s += " T" + std::to_string(mod(arg(o, 1), nt)) + ":" + kn[mod(arg(o, 2), 3)] + "(" + std::to_string(SIZES[mod(arg(o, 3), NS)]) + ")";
            return s;
        }
        Result execute(const Plan &p, Trace &tr) override
        {
            Result res;
            int nt = (int)mod(p.c(0) - 2, 3) + 2;
            thr::Config cfg;
            cfg.prop = "C10";
            cfg.sched_mode = (int)mod(p.c(1), 2);
            cfg.mem_preempt_every = (int)mod(p.c(2), 50);
            cfg.step_cap = 40000;
            struct Act { int kind; int64_t a, b; };
            std::vector<std::vector<Act>> acts(nt);
            for (auto &o : p.ops)
            {
                if (arg(o, 0) == OP_SCHED && o.size() > 1)
                {
                    if (cfg.sched_mode == 0) cfg.choices.insert(cfg.choices.end(), o.begin() + 1, o.end());
                    else
                        for (size_t i = 1; i < o.size(); i++)
                            if ((int)i <= thr::MAXT) cfg.prio.push_back(o[i]);
                            else cfg.change.push_back(mod(o[i], 600));
                }
                else if (arg(o, 0) == OP_ACT)
                    acts[mod(arg(o, 1), nt)].push_back({(int)mod(arg(o, 2), 3), arg(o, 3), arg(o, 4)});
            }
            __brkval = nullptr;
            if (&__flp) __flp = nullptr;
            if (&__allocation_counter) __allocation_counter = 0;
            std::map<char *, Blk> live;
            int tagc = 0;
            char *lo = _heap_start, *hi = _heap_start + ARENA;
            auto check_new = [&](char *b, size_t sz, const char *who) {
                char buf[300];
                if (!b) thr::report("C10/thr-heap-null", std::string(who) + " returned null");
                if (b - 8 < lo || b + sz > hi) thr::report("C10/thr-heap-outside-arena", "block outside the arena");
                if (((uintptr_t)b & 7) != 0) thr::report("C10/thr-heap-alignment", "block not 8-byte aligned");
                auto it = live.lower_bound(b);
                if (it != live.end() && it->first - 8 < b + sz)
                {
                    snprintf(buf, sizeof buf, "%s handed T%d the block [%td,%td) which overlaps T%d's live block at %td (size %zu)", who, thr::self(), b - lo, b - lo + (ptrdiff_t)sz,
                             it->second.owner, it->first - lo, it->second.size);
                    thr::report("C10/thr-heap-overlap", buf);
                }
                if (it != live.begin())
                {
                    --it;
                    if (it->first + it->second.size > b - 8)
                    {
                        snprintf(buf, sizeof buf, "%s handed T%d the block [%td,%td) which overlaps T%d's live block [%td,%td)", who, thr::self(), b - lo, b - lo + (ptrdiff_t)sz, it->second.owner,
                                 it->first - lo, it->first - lo + (ptrdiff_t)it->second.size);
                        thr::report("C10/thr-heap-overlap", buf);
                    }
                }
            };
            std::vector<std::function<void()>> bodies;
            for (int t = 0; t < nt; t++)
            {
                bodies.push_back([&, t]() {
                    auto mine = [&]() {
                        std::vector<std::pair<int, char *>> v;
                        for (auto &kv : live)
                            if (kv.second.owner == t) v.push_back({kv.second.tag, kv.first});
                        std::sort(v.begin(), v.end());
                        return v;
                    };
                    auto do_free = [&](char *b) {
                        Blk blk = live[b];
                        long bad = tprog_verify(b, blk.size, blk.tag);
                        if (bad >= 0) thr::report("C10/thr-heap-content-clobbered", "a live block's content changed before its owner freed it");
                        live.erase(b);
                        thr::api_enter();
                        tprog_free(b);
                        thr::api_exit();
                    };
                    for (auto &a : acts[t])
                    {
                        auto v = mine();
                        if (a.kind == 0)
                        {
                            if (v.size() >= 12) continue;
                            size_t sz = SIZES[mod(a.a, NS)];
                            thr::api_enter();
                            char *b = (char *)tprog_malloc(sz);
                            thr::api_exit();
                            check_new(b, sz, "malloc");
                            int tag = ++tagc;
                            live[b] = Blk{b, sz, tag, t};
                            tprog_fill(b, sz, tag);
                        }
                        else if (a.kind == 1)
                        {
                            if (v.empty()) continue;
                            do_free(v[(size_t)mod(a.b, (int64_t)v.size())].second);
                        }
                        else
                        {
                            if (v.empty()) continue;
                            char *b = v[(size_t)mod(a.b, (int64_t)v.size())].second;
                            Blk old = live[b];
                            size_t nsz = SIZES[mod(a.a, NS)];
                            if (tprog_verify(b, old.size, old.tag) >= 0) thr::report("C10/thr-heap-content-clobbered", "a live block's content changed before realloc");
                            live.erase(b);
                            thr::api_enter();
                            char *nb = (char *)tprog_realloc(b, nsz);
                            thr::api_exit();
                            check_new(nb, nsz, "realloc");
                            size_t keep = std::min(old.size, nsz);
                            if (tprog_verify(nb, keep, old.tag) >= 0) thr::report("C10/thr-realloc-prefix", "realloc lost part of the common prefix");
                            int tag = ++tagc;
                            live[nb] = Blk{nb, nsz, tag, t};
                            tprog_fill(nb, nsz, tag);
                        }
                    }
                    // the client dies: everything it owns is released
                    for (auto &x : mine()) do_free(x.second);
                });
            }
            thr::Hooks hooks;
            thr::RunResult rr = thr::run(cfg, bodies, tr, hooks);
            res.steps = rr.steps;
            res.simtime = rr.decisions;
            res.nontrivial = rr.overlap_switches > 0;
            if (rr.violation)
            {
                res.violation = true;
                res.sig = rr.sig;
                res.detail = rr.detail;
            }
            else
            {
                if (!live.empty()) violate("C10/harness", "blocks left in the shadow map");
                if (__brkval != nullptr && __brkval != __malloc_heap_start)
                    violate("C10/thr-heap-memory-lost", "after every client freed everything the break is %td bytes above the heap start", __brkval - __malloc_heap_start);
                if (&__flp && __flp != nullptr) violate("C10/thr-heap-memory-lost", "after every client freed everything the free list is not empty");
                if (&__allocation_counter && __allocation_counter != 0) violate("C10/thr-heap-allocation-counter", "allocation counter is %d at the end", __allocation_counter);
            }
            stat("sync_events", rr.steps);
            stat("context_switches", rr.switches);
            stat("mem_accesses", rr.mem_accesses);
            if (rr.overlap_switches) probe("heap_contended");
            return res;
        }
    };
}

int main(int argc, char **argv)
{
    ThrHeapWorld w;
    Harness h;
    h.property = "C10";
    h.worlds = {&w};
    h.real = {"compat/mem/lin_malloc.cpp + lin_realloc.cpp under thread schedules", "igris/sync/syslock_mutex.cpp (recursive system lock, re-entered by realloc)", "igris/sync/critical_context.c"};
    h.stub = {"pthread mutex model + seeded scheduler (sim/thr)", "client threads"};
    return harness_main(h, argc, argv);
}
