// C15: the C++ terminal (igris/shell/vtermxx.cpp + readlinexx.h + container/sline.h) behind the Term interface.
#include "C15_iface.h"
#include <igris/shell/vtermxx.h>

namespace
{
    struct TermXX : Term
    {
        igris::vtermxx vt;
        TermSink *sink = nullptr;
        void w(const char *d, unsigned n) { sink->on_write(d, n); }
        void e(const char *d, unsigned n) { sink->on_execute(d, n); }
        void s(int sig) { sink->on_signal(sig); }
        static TermXX *&routed() { static TermXX *t = nullptr; return t; }
        static TermXX *self_of(void *p) { return p ? (TermXX *)p : routed(); }
        static void cw(void *p, const char *d, unsigned n) { self_of(p)->sink->on_write(d, n); }
        static void ce(void *p, const char *d, unsigned n) { self_of(p)->sink->on_execute(d, n); }
        static void cs(void *p, int sig) { self_of(p)->sink->on_signal(sig); }
        void set_echo(bool on) override { vt.set_echo(on ? 1 : 0); }
        void start(unsigned cap, unsigned h, TermSink *sk, const char *prompt, bool echo, unsigned flags = 0) override
        {
            sink = sk;
            vt.init(cap, h);
            // three ways of wiring the callbacks: member functions; C-style functions with the object as context pointer;
            // C-style functions with a NULL context (the object is found through a file-level pointer, as C code does)
            int style = (int)((cap + 2 * h) % 3);
            if (style == 0)
            {
                vt.set_write_callback(igris::make_delegate(&TermXX::w, this));
                vt.set_execute_callback(igris::make_delegate(&TermXX::e, this));
                if (!(flags & 1)) vt.set_signal_callback(igris::make_delegate(&TermXX::s, this));
            }
            else
            {
                void *ctx = style == 1 ? (void *)this : nullptr;
                routed() = this;
                vt.set_write_callback(igris::make_delegate(&TermXX::cw, ctx));
                vt.set_execute_callback(igris::make_delegate(&TermXX::ce, ctx));
                if (!(flags & 1)) vt.set_signal_callback(igris::make_delegate(&TermXX::cs, ctx));
            }
            vt.set_prompt(prompt);
            vt.set_echo(echo ? 1 : 0);
            vt.init_step();
        }
        void feed(int c) override { vt.newdata((int16_t)c); }
        long len() override { return -1; }
        long cursor() override { return -1; }
        const char *name() override { return "vtermxx.cpp"; }
    };
}
Term *make_term_xx() { return new TermXX(); }
namespace
{
    struct XRl : XReadline
    {
        igris::readline rl;
        void init(unsigned cap, unsigned hist) override { rl.init(cap, hist); }
        int key(int c) override { return rl.newdata((char)c); }
        int linecpy(char *dst, unsigned long size) override { return rl.linecpy(dst, size); }
    };
}
XReadline *make_xreadline() { return new XRl(); }
