// C16 — timers under a discrete-event clock (engine E2, DESIGN.md 4.2 / 5 C16).
// Real: igris/time/timer_manager.h (+ dlist, syslock_mutex.cpp), igris/datastruct/stimer.c.
// Stub: the clock, the main loop, the clients and the callback scripts.
#include "../sim/kit.h"

#include <igris/time/timer_manager.h>
#include <igris/datastruct/stimer.h>
#include <memory>
#include <deque>

using namespace kit;

// The platform clock is a seam of its own: the timer code under test takes "now" as an argument and has no business reading a
// clock, but igris/time/systime.h is included by timer_manager.h, so a change can start to. The simulator owns that clock too: it is
// another time base than the one the application passes to exec() (milliseconds since the epoch, as on the posix port), it
// only advances with the simulated ticks, and every read is counted.
static int64_t g_platform_clock_ticks = 0;
static uint64_t g_platform_clock_reads = 0;
namespace igris
{
    int64_t millis() { g_platform_clock_reads++; return 1700000000000ll + g_platform_clock_ticks; }
    int64_t micros() { return millis() * 1000; }
    int64_t nanos() { return millis() * 1000000; }
}
extern "C" uint64_t systime_millis() { return (uint64_t)igris::millis(); }

namespace
{
    // ---------------------------------------------------------------- timer_manager world
    // plan ops (all object designators modulo ntimers):
    //  [0, dt]                      main loop: now += dt ; exec(now)          (dt >= 0; big dt = stall)
    //  [1, t, back, iv]             client: plan(t, now - back, iv)           (back may be negative: future start)
    //  [2, t]                       client: unplan(t)
    //  [3, t, kind, a, b, budget]   client: give timer t a callback script
    //  [4, t]                       client: destroy timer t (while planned or not) and create a fresh one
    //  [5, t]                       client: plan(t) again with unchanged start/interval (re-insert of a linked node)
    //  [6, g]                       manager g is destroyed while timers are pending in it (they must all end up unplanned) and replaced by a fresh one
    // script kinds: 0 nothing, 1 unplan self, 2 unplan other a, 3 replan self (now, b), 4 plan other a overdue
    //  (start = now - b*2, interval b), 5 plan other a in the future (start=now, interval b), 6 destroy other a
    enum { OP_TICK, OP_PLAN, OP_UNPLAN, OP_SCRIPT, OP_DESTROY, OP_REPLAN_SAME, OP_MANAGER_DEATH, OP_N };

    // The manager is a template over its time base (timer_spec<Time>): the world is instantiated for the stock 64-bit
    // tick counter, for a floating-point time base with fractional deadlines, and for a 32-bit counter; the run's
    // clock resolution (how many time units one plan tick is) is a configuration of the run.
    template <class TT> struct TimerWorldT;
    template <class TT> struct SimTimerT : igris::timer_head_basic<igris::timer_spec<TT>>
    {
        TimerWorldT<TT> *w;
        int id;
        SimTimerT(TimerWorldT<TT> *w, int id) : w(w), id(id) {}
        void execute() override;
    };

    // a device object that IS a timer among other things: the timer head is its second base (behind a polymorphic first base of
    // 40 bytes), so every conversion between the device and its timer head moves the pointer
    struct DeviceBase
    {
        long regs[4] = {11, 22, 33, 44};
        virtual ~DeviceBase() {}
        virtual int kind() const { return 7; }
    };
    template <class TT> struct DeviceTimerT : DeviceBase, SimTimerT<TT>
    {
        long tail_canary = 0x7A11;
        DeviceTimerT(TimerWorldT<TT> *w, int id) : SimTimerT<TT>(w, id) {}
        void execute() override
        {
            if (regs[0] != 11 || regs[3] != 44 || tail_canary != 0x7A11 || kind() != 7) kit::defer_violation("C16/delegate-this", "%s", "a timer that is the second base of its object ran execute() with a wrong this pointer");
            probe("timer_head_as_second_base_fired");
            SimTimerT<TT>::execute();
        }
    };

    // the user-facing timer: igris::timer_basic<spec, Args...> calls a delegate with stored arguments (igris::timer<Args...>
    // for the stock time base). Timers with an odd id are of this kind: member-function delegate, arguments (id, 7 - id).
    template <class TT> struct DelegateTimerT : igris::timer_basic<igris::timer_spec<TT>, int, int>
    {
        typedef igris::timer_basic<igris::timer_spec<TT>, int, int> Base;
        // the three kinds of delegate: member function + object, function with a context pointer, plain function
        static void ext_thunk(void *w, int id, int check) { ((TimerWorldT<TT> *)w)->on_delegate(id, check); }
        static void ext_null_thunk(void *ctx, int id, int check)
        {
            if (ctx != nullptr) kit::defer_violation("C16/delegate-arguments", "%s", "a context-function delegate bound to a NULL context was called with another context");
            plain_target()->on_delegate(id, check);
        }
        static TimerWorldT<TT> *&plain_target() { static TimerWorldT<TT> *t = nullptr; return t; }
        static void plain_thunk(int id, int check) { plain_target()->on_delegate(id, check); }
        // a handler object with two bases: the bound method comes from the second one, so calling it needs a this-adjustment
        struct Padding
        {
            long filler[3] = {1, 2, 3};
            virtual ~Padding() {}
        };
        struct Handler
        {
            TimerWorldT<TT> *world = nullptr;
            long canary = 0x5EC0DBA5;
            void on_timer(int id, int check)
            {
                if (canary != 0x5EC0DBA5 || !world) kit::defer_violation("C16/delegate-this", "%s", "a member-function delegate entered its method with a wrong this pointer");
                else world->on_delegate(id, check);
            }
        };
        struct Device : Padding, Handler
        {
        };
        static Device &device() { static Device d; return d; }
        // a handler reached through its interface: the bound method is virtual, the delegate is made from the base class'
        // pointer to member and a pointer to the base
        struct Listener
        {
            virtual void on_timer(int id, int check) = 0;
            virtual ~Listener() {}
        };
        struct WorldListener : Listener
        {
            TimerWorldT<TT> *world = nullptr;
            void on_timer(int id, int check) override { probe("virtual_method_delegate_fired"); world->on_delegate(id, check); }
        };
        static WorldListener &listener() { static WorldListener l; return l; }
        static igris::delegate<void, int, int> make(TimerWorldT<TT> *w, int id)
        {
            int kind = (id / 2 + w->n) % 5; // which delegate kind a timer id gets rotates with the number of timers of the run
            if (kind == 4)
            {
                listener().world = w;
                Listener *iface = &listener();
                return igris::make_delegate(&Listener::on_timer, iface);
            }
            if (kind == 1)
            {
                device().world = w;
                void (Device::*h)(int, int) = &Device::on_timer;
                return igris::make_delegate(h, &device());
            }
            if (kind == 0) return igris::make_delegate(&TimerWorldT<TT>::on_delegate, w);
            if (kind == 2 && (id & 2)) return igris::make_delegate(&ext_thunk, (void *)w);
            if (kind == 2)
            {
                // the same kind with a NULL context (the function finds its object elsewhere, as C code does)
                plain_target() = w;
                return igris::make_delegate(&ext_null_thunk, (void *)nullptr);
            }
            plain_target() = w;
            return igris::make_delegate(&plain_thunk);
        }
        DelegateTimerT(TimerWorldT<TT> *w, int id) : Base(make(w, id), int(id), int(7 - id)) {}
    };

    template <class TT> struct ModelT
    {
        TT start = 0, interval = 1;
        bool planned = false;
        int mg = 0; // which manager it is planned in
        TT finish() const { return start + interval; }
        bool due(TT now) const { return planned && now - start >= interval; }
    };
    typedef ModelT<int64_t> Model;
    template <class TT> struct Units;
    template <> struct Units<int64_t>
    {
        static const char *name() { return "timer_manager"; }
        static int64_t unit(int64_t k) { static const int64_t u[] = {1, 1, 1000, 1ll << 22, 1ll << 31, 1000000}; return u[mod(k, 6)]; }
        static int64_t tmax() { return INT64_MAX; }
    };
    template <> struct Units<double>
    {
        static const char *name() { return "timer_manager<double>"; }
        static double unit(int64_t k) { static const double u[] = {0.25, 0.25, 0.5, 1.0, 0.125, 1024.0}; return u[mod(k, 6)]; }
        static double tmax() { return 1e300; }
    };
    template <> struct Units<int32_t>
    {
        static const char *name() { return "timer_manager<int32>"; }
        static int32_t unit(int64_t k) { static const int32_t u[] = {1, 1, 10, 100, 3, 1}; return u[mod(k, 6)]; }
        static int32_t tmax() { return INT32_MAX; }
    };
    // a wrapping counter as the time base (the millis() of a small target): `now - start >= interval` is the wrap-safe idiom,
    // and under it a start that lies in the future is indistinguishable from one that is long overdue. The property holds for
    // this base exactly on the histories that keep every start at or before "now": client plans start in the past or now,
    // and a callback does not re-plan its own timer at "now" (the re-arm would shift that start one interval ahead). The
    // counter itself does not wrap inside a run (plan() orders by absolute deadline).
    template <> struct Units<uint32_t>
    {
        static const char *name() { return "timer_manager<uint32>"; }
        static uint32_t unit(int64_t k) { static const uint32_t u[] = {1, 1, 10, 100, 3, 1}; return u[mod(k, 6)]; }
        static uint32_t tmax() { return UINT32_MAX; }
    };
    struct Script
    {
        int kind = 0;
        int64_t a = 0, b = 1;
        int budget = 0;
    };

    template <class TT> struct TimerWorldT : World
    {
        typedef igris::timer_manager_basic<igris::timer_spec<TT>> Manager;
        typedef SimTimerT<TT> SimTimer;
        typedef DelegateTimerT<TT> DelegateTimer;
        typedef igris::timer_head_basic<igris::timer_spec<TT>> Head;
        typedef ModelT<TT> Model;
        Head *fresh_timer(int id)
        {
            if (id & 1) return (Head *)new DelegateTimer(this, id);
            if (id % 4 == 2) return static_cast<Head *>(new DeviceTimerT<TT>(this, id)); // (the head is the object's second base)
            return (Head *)new SimTimer(this, id);
        }
        void on_delegate(int id, int check)
        {
            if (check != 7 - id) violate("C16/delegate-arguments", "a delegate timer called back with arguments (%d,%d), it was built with (%d,%d)", id, check, id, 7 - id);
            probe("delegate_timer_fired");
            on_fire(id);
        }
        const char *name() const override { return Units<TT>::name(); }
        unsigned weight(Tier) const override { return std::is_same<TT, int64_t>::value ? 6 : 2; }
        TT S = 1; // time units per plan tick

        // run state
        Manager *mgr = nullptr;  // the manager whose exec() is running / that plan ops address
        Manager *mgrs[2] = {nullptr, nullptr};
        int cur_mg = 0;
        int nmgr = 1;
        std::vector<std::unique_ptr<Head>> tim;
        std::vector<Model> model;
        std::vector<Script> script;
        TT now = 0;
        Trace *tr = nullptr;
        int executing = -1;
        uint64_t callbacks = 0, fires_this_exec = 0, callback_cap = 500000;
        size_t nops_in_plan = 0;
        bool pending_changed = false;
        int n = 0;
        bool in_exec = false;
        int nest_depth = 0;

        Plan generate(Rng &r, Tier tier) override
        {
            Plan p;
            int nt = (int)r.range(1, tier == THOROUGH ? 8 : 6);
            int64_t period = r.pick<int64_t>({1, 1, 2, 5, 10, 100});
            bool coarse = r.chance(1, 4);          // coarse tick: many deadlines in one tick
            bool equal_deadlines = r.chance(1, 3); // intervals from a tiny set so deadlines collide
            unsigned stall_pm = (unsigned)r.pick<int64_t>({0, 20, 60, 150});
            unsigned script_pm = (unsigned)r.pick<int64_t>({0, 100, 300});
            // where on the time axis the run starts: far positive, around zero, negative (signed/unsigned mistakes live there)
            int64_t origin = r.pick<int64_t>({1000, 1000, 0, -30, -3000, 5});
            p.cfg = {nt, origin, r.chance(1, 3) ? 1 : 0, (int64_t)r.below(6)};
            int nops = (int)r.range(5, tier == THOROUGH ? 120 : 60);
            if (r.chance(1, 40)) nops *= 8; // a long history: what only accumulates over hundreds or thousands of operations
            auto interval = [&]() -> int64_t {
                if (equal_deadlines) return r.pick<int64_t>({1, 2, 4}) * period;
                return r.range(1, 12 * period);
            };
            for (int i = 0; i < nops; i++)
            {
                unsigned k = (unsigned)r.below(1000);
                if (k < 380)
                {
                    int64_t dt = coarse ? r.range(0, 20 * period) : r.range(0, 2 * period);
                    if (r.below(1000) < stall_pm) dt = period * r.range(3, 64); // stall of the main loop
                    if (dt > 2000) dt = 2000;
                    p.ops.push_back({OP_TICK, dt});
                }
                else if (k < 700)
                {
                    int64_t iv = interval();
                    int64_t back = r.chance(1, 3) ? r.range(0, 3 * iv) : (r.chance(1, 2) ? 0 : -r.range(0, 3 * period));
                    // last argument: how the client sets the timer up - plan(t, start, interval), or the setters followed by plan(t):
                    // only a new start (restart with the interval it has), only a new interval, both in either order
                    p.ops.push_back({OP_PLAN, (int64_t)r.below(nt), back, iv, (int64_t)r.below(2), r.chance(1, 2) ? 0 : (int64_t)r.range(1, 4)});
                }
                else if (k < 780)
                    p.ops.push_back({OP_UNPLAN, (int64_t)r.below(nt)});
                else if (k < 780 + script_pm / 2 + 60)
                    p.ops.push_back({OP_SCRIPT, (int64_t)r.below(nt), r.range(0, 8), (int64_t)r.below(nt), interval(),
                                     r.range(1, 3)});
                else if (k < 960)
                    p.ops.push_back({OP_REPLAN_SAME, (int64_t)r.below(nt)});
                else if (k < 990)
                    p.ops.push_back({OP_DESTROY, (int64_t)r.below(nt)});
                else
                    p.ops.push_back({OP_MANAGER_DEATH, (int64_t)r.below(2)});
            }
            // always end with the loop catching up: liveness after the last client op
            p.ops.push_back({OP_TICK, period});
            return p;
        }

        std::string describe(const Plan &p) override
        {
            std::string s = "timers=" + std::to_string(p.c(0)) + " time_units_per_tick=" + std::to_string((double)Units<TT>::unit(p.c(3, 0))) + " ops:";
            static const char *nm[] = {"tick+", "plan", "unplan", "script", "destroy", "replan_same", "manager_death"};
            for (auto &o : p.ops)
            {
                s += " ";
                s += nm[mod(arg(o, 0), OP_N)];
                s += "(";
                for (size_t i = 1; i < o.size(); i++) s += (i > 1 ? "," : "") + std::to_string(o[i]);
                s += ")";
            }
            return s;
        }

        // ---- model helpers
        TT min_deadline(int mg) const
        {
            TT m = Units<TT>::tmax();
            for (auto &t : model)
                if (t.planned && t.mg == mg && t.finish() < m) m = t.finish();
            return m;
        }
        bool any_planned(int mg) const
        {
            for (auto &t : model)
                if (t.planned && t.mg == mg) return true;
            return false;
        }

        std::vector<char> configured; // the timer has been given a start and an interval at least once
        void do_plan(int t, TT start, TT iv, int style = 0)
        {
            if (!configured[t]) style = 0;
            switch (style)
            {
            default: mgrs[cur_mg]->plan(*tim[t], start, iv); break;
            case 1: // restart: a new start, the interval it already has
                iv = model[t].interval;
                tim[t]->set_start(start);
                mgrs[cur_mg]->plan(*tim[t]);
                probe("restarted_through_set_start");
                break;
            case 2: // a new period from the start it already has (kept at or before "now" by the caller of this helper)
                start = model[t].start;
                tim[t]->set_interval(iv);
                mgrs[cur_mg]->plan(*tim[t]);
                break;
            case 3:
                tim[t]->set_start(start);
                tim[t]->set_interval(iv);
                mgrs[cur_mg]->plan(*tim[t]);
                break;
            case 4:
                tim[t]->set_interval(iv);
                tim[t]->set_start(start);
                mgrs[cur_mg]->plan(*tim[t]);
                break;
            }
            configured[t] = 1;
            model[t].start = start;
            model[t].interval = iv;
            if (model[t].planned && model[t].mg != cur_mg) probe("timer_moved_between_managers");
            model[t].planned = true;
            model[t].mg = cur_mg;
        }
        void do_unplan(int t)
        {
            tim[t]->unplan();
            model[t].planned = false;
        }
        void do_destroy(int t)
        {
            tim[t].reset(); // ~timer_head -> ~dlist_node unlinks
            tim[t].reset(fresh_timer(t));
            model[t] = Model();
            script[t] = Script();
            configured[t] = 0;
        }

        void check_state(const char *where)
        {
            check_deferred();
            for (int i = 0; i < n; i++)
            {
                if (tim[i]->is_planned() != model[i].planned)
                    violate("C16/is_planned", "%s: timer %d is_planned=%d model=%d", where, i, (int)tim[i]->is_planned(),
                            (int)model[i].planned);
                if (model[i].planned && tim[i]->finish() != model[i].finish())
                    violate("C16/rearm", "%s: timer %d finish=%.17g model=%.17g", where, i, (double)tim[i]->finish(),
                            (double)model[i].finish());
            }
            for (int g = 0; g < nmgr; g++)
            {
                bool e = !any_planned(g);
                if (mgrs[g]->empty() != e) violate("C16/empty", "%s: manager %d empty()=%d model=%d", where, g, (int)mgrs[g]->empty(), (int)e);
                if (!e)
                {
                    TT mi = mgrs[g]->minimal_interval(now);
                    if (mi != min_deadline(g) - now)
                        violate("C16/minimal_interval", "%s: manager %d minimal_interval=%.17g model=%.17g", where, g, (double)mi,
                                (double)(min_deadline(g) - now));
                }
            }
        }

        void on_fire(int id)
        {
            callbacks++;
            fires_this_exec++;
            tr->ev("fire t%d now=%.17g", id, (double)now);
            if (!in_exec) violate("C16/fire-outside-exec", "timer %d fired outside exec", id);
            if (callbacks > callback_cap) violate("C16/livelock", "more than %llu callbacks in one run of %zu operations", (unsigned long long)callback_cap, nops_in_plan);
            Model &m = model[id];
            if (!m.planned) violate("C16/unplanned-fired", "timer %d fired while not planned (now=%.17g)", id, (double)now);
            if (!m.due(now))
                violate("C16/early", "timer %d fired early: now=%.17g start=%.17g interval=%.17g", id, (double)now,
                        (double)m.start, (double)m.interval);
            if (m.mg != cur_mg) violate("C16/fired-by-wrong-manager", "timer %d is planned in manager %d but was fired by exec() of manager %d", id, m.mg, cur_mg);
            TT md = min_deadline(cur_mg);
            if (m.finish() != md)
                violate("C16/order", "timer %d (deadline %.17g) fired before a pending timer with deadline %.17g", id,
                        (double)m.finish(), (double)md);
            // what the callback observes when it asks: the firing timer is still planned (its re-arm happens when the callback
            // returns), every other timer is as the model says, the manager is not empty and the time to the next deadline is
            // that of the model's pending set (the firing timer included: zero or overdue)
            for (int i = 0; i < n; i++)
                if (tim[i]->is_planned() != model[i].planned)
                    violate("C16/is_planned", "inside the callback of timer %d: timer %d is_planned()=%d, model %d", id, i, (int)tim[i]->is_planned(), (int)model[i].planned);
            if (mgrs[cur_mg]->empty()) violate("C16/empty", "inside the callback of timer %d its manager reports empty()", id);
            else if (mgrs[cur_mg]->minimal_interval(now) != md - now)
                violate("C16/minimal_interval", "inside the callback of timer %d: minimal_interval=%.17g, the model's nearest deadline is %.17g away", id, (double)mgrs[cur_mg]->minimal_interval(now), (double)(md - now));
            // scripted callback body
            Script &s = script[id];
            executing = id;
            if (s.kind != 0 && s.budget > 0 && nest_depth == 0) // (callbacks that run nested in another callback are plain ones)
            {
                s.budget--;
                int o = (int)mod(s.a, n);
                TT iv = (TT)(s.b < 1 ? 1 : s.b) * S;
                switch (s.kind)
                {
                case 1:
                    do_unplan(id);
                    pending_changed = true;
                    probe("callback_unplanned_self");
                    break;
                case 2:
                    do_unplan(o);
                    pending_changed = true;
                    probe(o == id ? "callback_unplanned_self" : "callback_unplanned_other");
                    break;
                case 3:
                    if (std::is_unsigned<TT>::value) break; // (see Units<uint32_t>)
                    do_plan(id, now, iv);
                    pending_changed = true;
                    probe("replan_self");
                    break;
                case 4:
                    do_plan(o, now - 2 * iv, iv);
                    pending_changed = true;
                    probe("callback_planned_overdue");
                    break;
                case 5:
                    if (std::is_unsigned<TT>::value && o == id) break;
                    do_plan(o, now, iv);
                    pending_changed = true;
                    probe("callback_planned_future");
                    break;
                case 8:
                    // the callback drives the other manager's loop (a slow housekeeping queue run from a tick timer of the fast one):
                    // that manager's due timers fire now, nested in this callback. One level only - a manager's exec() is not
                    // entered again while it is running (that is unbounded recursion on the unchanged tree too).
                    if (nmgr == 2)
                    {
                        int save_mg = cur_mg, save_exec = executing;
                        nest_depth++;
                        cur_mg = 1 - save_mg;
                        mgrs[cur_mg]->exec(now);
                        for (int i = 0; i < n; i++)
                            if (model[i].mg == cur_mg && model[i].due(now))
                                violate("C16/missed", "after a nested exec(%.17g) of manager %d (called from a callback of manager %d) timer %d is still due", (double)now, cur_mg, save_mg, i);
                        cur_mg = save_mg;
                        executing = save_exec;
                        nest_depth--;
                        pending_changed = true;
                        probe("callback_ran_the_other_managers_loop");
                    }
                    break;
                case 7:
                    // the callback changes its own period (a back-off): the re-arm that follows uses the new interval
                    if (std::is_unsigned<TT>::value) break; // (a longer period would put the re-armed start ahead of now, see Units<uint32_t>)
                    tim[id]->set_interval(iv);
                    model[id].interval = iv;
                    pending_changed = true;
                    probe("callback_changed_its_own_period");
                    break;
                case 6:
                    if (o != id)
                    {
                        do_destroy(o);
                        pending_changed = true;
                        probe("callback_destroyed_other");
                    }
                    break;
                }
            }
            executing = -1;
            // model of the re-arm rule: a timer still planned when its callback returns is shifted by
            // exactly one interval
            if (model[id].planned) model[id].start += model[id].interval;
        }

        Result execute(const Plan &p, Trace &t) override
        {
            Result res;
            tr = &t;
            n = (int)mod(p.c(0) - 1, 8) + 1;
            std::unique_ptr<Manager> own[2];
            own[0].reset(new Manager());
            own[1].reset(new Manager());
            Manager &manager = *own[0], &manager2 = *own[1];
            S = Units<TT>::unit(p.c(3, 0));
            if (S != 1) probe(S > 1 ? "fine_clock_resolution" : "fractional_time_base");
            int64_t ticks = 0;
            mgr = &manager;
            mgrs[0] = &manager;
            mgrs[1] = &manager2;
            nmgr = (int)mod(p.c(2, 0), 2) + 1;
            cur_mg = 0;
            tim.clear();
            model.assign(n, Model());
            configured.assign(n, 0);
            script.assign(n, Script());
            for (int i = 0; i < n; i++) tim.emplace_back(fresh_timer(i));
            int64_t origin = p.c(1, 1000) % 100000;
            if (std::is_unsigned<TT>::value) origin = 70000 + mod(origin, 1000), probe("wrapping_counter_time_base");
            now = (TT)origin * S;
            if (origin <= 0) probe("time_origin_not_positive");
            callbacks = 0;
            nest_depth = 0;
            nops_in_plan = p.ops.size();
            callback_cap = 500000 + 20000ull * p.ops.size(); // (safety net against a timer that fires for ever; scales with the history)
            pending_changed = false;
            in_exec = false;
            bool catchup = false;
            struct Cleanup
            {
                TimerWorldT *w;
                ~Cleanup() { w->tim.clear(); w->mgr = nullptr; }
            } cleanup{this};
            check_state("init");
            for (auto &o : p.ops)
            {
                int kind = (int)mod(arg(o, 0), OP_N);
                int ti = (int)mod(arg(o, 1), n);
                switch (kind)
                {
                case OP_TICK:
                {
                    int64_t dt = mod(arg(o, 1), 2001);
                    now += (TT)dt * S;
                    ticks += dt;
                    g_platform_clock_ticks += dt;
                    if (dt >= 30) fault("stall");
                    t.ev("exec now=%.17g", (double)now);
                    fires_this_exec = 0;
                    // equal-deadline probe
                    {
                        std::map<TT, int> seen;
                        for (auto &m : model)
                            if (m.planned && m.due(now) && ++seen[m.finish()] == 2) probe("equal_deadlines");
                    }
                    in_exec = true;
                    // every manager's loop runs at this tick (second manager first on odd ticks)
                    for (int gi = 0; gi < nmgr; gi++)
                    {
                        cur_mg = (gi + (int)(dt & 1)) % nmgr;
                        mgrs[cur_mg]->exec(now);
                    }
                    in_exec = false;
                    cur_mg = 0;
                    for (int i = 0; i < n; i++)
                        if (model[i].due(now))
                            violate("C16/missed", "after exec(%.17g) timer %d is still due (start=%.17g interval=%.17g)",
                                    (double)now, i, (double)model[i].start, (double)model[i].interval);
                    if (fires_this_exec >= 2) catchup = true;
                    if (fires_this_exec >= 10) probe("catch_up_ge_10");
                    break;
                }
                case OP_PLAN:
                {
                    int64_t iv = mod(arg(o, 3) - 1, 5000) + 1;
                    int64_t back = arg(o, 2) % 20000;
                    if (std::is_unsigned<TT>::value && back < 0) back = 0;
                    cur_mg = (int)mod(arg(o, 4), nmgr);
                    t.ev("plan t%d in manager %d start=now-%lld iv=%lld", ti, cur_mg, (long long)back, (long long)iv);
                    {
                        int style = (int)mod(arg(o, 5), 5);
                        // (a wrapping time base needs every start at or before now: the old start of style 2 may lie ahead after a re-arm)
                        if (style == 2 && (std::is_unsigned<TT>::value || model[ti].start > now)) style = 0;
                        do_plan(ti, now - (TT)back * S, (TT)iv * S, style);
                    }
                    cur_mg = 0;
                    if (back >= iv) fault("planned_overdue");
                    break;
                }
                case OP_UNPLAN:
                    t.ev("unplan t%d", ti);
                    do_unplan(ti);
                    break;
                case OP_SCRIPT:
                    script[ti].kind = (int)mod(arg(o, 2), 9);
                    script[ti].a = arg(o, 3);
                    script[ti].b = mod(arg(o, 4) - 1, 5000) + 1;
                    script[ti].budget = (int)mod(arg(o, 5), 4);
                    t.ev("script t%d kind=%d", ti, script[ti].kind);
                    break;
                case OP_DESTROY:
                    t.ev("destroy t%d planned=%d", ti, (int)model[ti].planned);
                    if (model[ti].planned) fault("destroy_planned_timer");
                    do_destroy(ti);
                    break;
                case OP_MANAGER_DEATH:
                {
                    int g = (int)mod(arg(o, 1), nmgr);
                    int pending = 0;
                    for (auto &m : model)
                        if (m.planned && m.mg == g) { m.planned = false; pending++; }
                    t.ev("manager %d dies with %d timers pending", g, pending);
                    if (pending >= 2) probe("manager_destroyed_with_pending_timers");
                    if (pending) fault("destroy_manager_with_pending_timers");
                    own[g].reset(); // ~dlist_base unlinks every node
                    own[g].reset(new Manager());
                    mgrs[g] = own[g].get();
                    if (g == 0) mgr = mgrs[0];
                    break;
                }
                case OP_REPLAN_SAME:
                    if (model[ti].planned)
                    {
                        t.ev("replan-same t%d", ti);
                        mgrs[model[ti].mg]->plan(*tim[ti]);
                        probe("replan_linked");
                    }
                    break;
                }
                check_state("after-op");
            }
            // teardown in plan-determined order: destroying planned timers must leave the manager consistent
            for (int i = n - 1; i >= 0; i--)
            {
                tim[i].reset(fresh_timer(i));
                model[i] = Model();
                check_state("teardown");
            }
            res.steps = t.nev;
            res.simtime = (uint64_t)ticks;
            res.nontrivial = catchup || pending_changed;
            stat("callbacks", callbacks);
            stat("sim_ticks", res.simtime);
            return res;
        }
    };

    template <class TT> void SimTimerT<TT>::execute() { w->on_fire(id); }

    // ---------------------------------------------------------------- stimer world
    // ops: [0,dt] advance; [1,t,back,iv] stimer_plan; [2,t,back,iv] stimer_init (not planned);
    //      [3,t,back] stimer_start; [4,t] check; [5,t] STIMER_PERIODIC; [6,t] swift
    struct StimerWorld : World
    {
        const char *name() const override { return "stimer"; }
        unsigned weight(Tier) const override { return 1; }
        Plan generate(Rng &r, Tier tier) override
        {
            Plan p;
            int nt = (int)r.range(1, 4);
            // (the last two: a millisecond counter after 35 days, milliseconds since the epoch - starts that need more than 32 bits)
            p.cfg = {nt, r.pick<int64_t>({500, 0, -25, -2000, 3, 500, 3000000000ll, 1700000000000ll})};
            int nops = (int)r.range(5, tier == THOROUGH ? 150 : 60);
            if (r.chance(1, 40)) nops *= 8; // a long history: what only accumulates over hundreds or thousands of operations
            for (int i = 0; i < nops; i++)
            {
                int k = (int)r.below(9);
                int64_t iv = r.range(1, 50);
                switch (k)
                {
                case 7: p.ops.push_back({7, (int64_t)r.below(nt), (int64_t)r.below(2), iv}); break;
                case 8: p.ops.push_back({8, (int64_t)r.below(nt), r.range(-20, 100), iv, (int64_t)r.below(2)}); break;
                case 0: p.ops.push_back({0, r.chance(1, 8) ? r.range(50, 2000) : r.range(0, 20)}); break;
                case 1: p.ops.push_back({1, (int64_t)r.below(nt), r.range(-20, 100), iv}); break;
                case 2: p.ops.push_back({2, (int64_t)r.below(nt), r.range(-20, 100), iv}); break;
                case 3: p.ops.push_back({3, (int64_t)r.below(nt), r.range(-20, 100)}); break;
                default: p.ops.push_back({(int64_t)k, (int64_t)r.below(nt)}); break;
                }
            }
            return p;
        }
        Result execute(const Plan &p, Trace &t) override
        {
            Result res;
            int n = (int)mod(p.c(0) - 1, 4) + 1;
            std::vector<stimer_head> st(n);
            std::vector<Model> m(n);
            long origin = p.c(1, 500) >= 1000000000 ? (long)std::min<int64_t>(p.c(1), 4000000000000ll) : (long)(p.c(1, 500) % 100000);
            if (origin >= 1000000000) probe("stimer_time_beyond_32_bits");
            long now = origin;
            if (origin <= 0) probe("time_origin_not_positive");
            for (int i = 0; i < n; i++) stimer_init(&st[i], now, 1);
            for (int i = 0; i < n; i++) m[i].start = now, m[i].interval = 1, m[i].planned = false;
            bool periodic_multi = false;
            auto check = [&](int i, const char *where) {
                int c = stimer_check(&st[i], now);
                if ((c != 0) != m[i].due(now))
                    violate("C16/stimer_check", "%s: stimer %d check=%d model due=%d (now=%ld start=%lld iv=%lld planned=%d)",
                            where, i, c, (int)m[i].due(now), now, (long long)m[i].start, (long long)m[i].interval,
                            (int)m[i].planned);
                if ((int64_t)stimer_finish(&st[i]) != m[i].finish())
                    violate("C16/stimer_finish", "%s: stimer %d finish=%lu model=%lld", where, i, stimer_finish(&st[i]),
                            (long long)m[i].finish());
            };
            for (auto &o : p.ops)
            {
                int kind = (int)mod(arg(o, 0), 9);
                int ti = (int)mod(arg(o, 1), n);
                switch (kind)
                {
                case 8:
                {
                    // the owner sets the (public) fields by hand, in storage that held something else before and that no library
                    // function has written since: a timer that is a member of a recycled object, armed or left disarmed
                    int64_t iv = mod(arg(o, 3) - 1, 1000) + 1;
                    int64_t back = arg(o, 2) % 5000;
                    memset((void *)&st[ti], 0xA5, sizeof st[ti]);
                    st[ti].start = now - back;
                    st[ti].interval = iv;
                    st[ti].planed = mod(arg(o, 4), 2) ? 1 : 0;
                    m[ti].start = now - back;
                    m[ti].interval = iv;
                    m[ti].planned = mod(arg(o, 4), 2) != 0;
                    probe("stimer_fields_set_by_hand_in_dirty_storage");
                    check(ti, "set-by-hand");
                    break;
                }
                case 7:
                {
                    // a periodic block that does more than run to its end: it gives its own timer a new period, or it leaves the
                    // caller's polling loop with break. The period is advanced when the block is entered.
                    bool due = m[ti].due(now);
                    if (mod(arg(o, 2), 2) == 0)
                    {
                        int64_t iv2 = mod(arg(o, 3) - 1, 1000) + 1;
                        bool ran = false;
                        STIMER_PERIODIC(&st[ti], now)
                        {
                            ran = true;
                            stimer_plan(&st[ti], now, iv2);
                        }
                        if (ran != due) violate("C16/stimer_periodic", "stimer %d periodic ran=%d model due=%d", ti, (int)ran, (int)due);
                        if (due) { m[ti].start = now; m[ti].interval = iv2; m[ti].planned = true; probe("periodic_block_replanned_its_timer"); }
                    }
                    else
                    {
                        int fired = 0;
                        for (int poll = 0; poll < 5; poll++)
                        {
                            STIMER_PERIODIC(&st[ti], now)
                            {
                                fired++;
                                break; // (leaves the polling loop: the macro is a plain if on this tree's contract)
                            }
                        }
                        if (fired != (due ? 1 : 0)) violate("C16/stimer_periodic", "a polling loop left with break from the periodic block of stimer %d ran the block %d times, model due=%d", ti, fired, (int)due);
                        if (due) { m[ti].start += m[ti].interval; probe("periodic_block_left_with_break"); }
                    }
                    check(ti, "periodic-block");
                    break;
                }
                case 0:
                    now += mod(arg(o, 1), 2001);
                    t.ev("now=%ld", now);
                    break;
                case 1:
                case 2:
                {
                    int64_t iv = mod(arg(o, 3) - 1, 1000) + 1;
                    int64_t back = arg(o, 2) % 5000;
                    if (kind == 1) stimer_plan(&st[ti], now - back, iv);
                    else stimer_init(&st[ti], now - back, iv);
                    m[ti].start = now - back;
                    m[ti].interval = iv;
                    m[ti].planned = kind == 1;
                    t.ev("%s s%d back=%lld iv=%lld", kind == 1 ? "plan" : "init", ti, (long long)back, (long long)iv);
                    break;
                }
                case 3:
                {
                    int64_t back = arg(o, 2) % 5000;
                    stimer_start(&st[ti], now - back);
                    m[ti].start = now - back;
                    m[ti].planned = true;
                    t.ev("start s%d back=%lld", ti, (long long)back);
                    break;
                }
                case 4:
                    check(ti, "check");
                    break;
                case 5:
                {
                    // periodic action: one firing per elapsed period, shifting by exactly one interval
                    int fired = 0;
                    for (int guard = 0; guard < 100000; guard++)
                    {
                        bool ran = false;
                        // the time argument may be any expression (a conditional, a masked counter)
                        long alt = now;
                        if (guard % 3 == 0) { STIMER_PERIODIC(&st[ti], now) { ran = true; } }
                        else if (guard % 3 == 1) { STIMER_PERIODIC(&st[ti], (ti & 1) ? now : alt) { ran = true; } }
                        else { STIMER_PERIODIC(&st[ti], now | 0) { ran = true; } }
                        bool expect = m[ti].due(now);
                        if (ran != expect)
                            violate("C16/stimer_periodic", "stimer %d periodic ran=%d model due=%d", ti, (int)ran, (int)expect);
                        if (!ran) break;
                        m[ti].start += m[ti].interval;
                        fired++;
                        check(ti, "periodic");
                    }
                    t.ev("periodic s%d fired=%d", ti, fired);
                    if (fired >= 2) periodic_multi = true;
                    break;
                }
                case 6:
                    stimer_swift(&st[ti]);
                    m[ti].start += m[ti].interval;
                    t.ev("swift s%d", ti);
                    break;
                }
                for (int i = 0; i < n; i++) check(i, "after-op");
            }
            res.nontrivial = periodic_multi;
            res.simtime = (uint64_t)(now - origin);
            return res;
        }
    };
}

int main(int argc, char **argv)
{
    TimerWorldT<int64_t> tw;
    TimerWorldT<double> twd;
    TimerWorldT<int32_t> tw32;
    TimerWorldT<uint32_t> twu32;
    StimerWorld sw;
    Harness h;
    h.property = "C16";
    h.worlds = {&tw, &sw, &twd, &tw32, &twu32};
    h.real = {"igris/time/timer_manager.h", "igris/container/dlist.h+dlist.cpp", "igris/event/delegate.h (timer_basic<spec, int, int> with a member-function delegate: every odd timer)",
              "igris/sync/syslock_mutex.cpp (single thread)", "igris/datastruct/stimer.c"};
    h.stub = {"simulated clock (now passed into exec/stimer_check)", "main loop with stalls", "client ops", "callback scripts"};
    return harness_main(h, argc, argv);
}
KIT_ASAN_OPTIONS()
