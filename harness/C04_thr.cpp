// C04 — threads part (engine E1): several sender threads encode concurrently, each with its own framing variant.
// The encoders are supposed to be pure functions of (payload, alphabet): under every schedule each thread's frame must equal
// the reference encoding, and the happens-before detector must stay silent on the encoder's code (no hidden shared state).
// Uninstrumented; includes no igris header.
#include "../sim/kit.h"
#include "../sim/thr/thrsim.h"
#include <memory>

using namespace kit;
extern "C" int c04_encode(int variant, int enc, char *payload, unsigned long n, char *out);

namespace
{
    typedef std::vector<uint8_t> Bytes;
    struct Alphabet { uint8_t START, STOP, STUB, C_START, C_STOP, C_STUB; };
    const Alphabet A1 = {0xA8, 0xB2, 0xC5, 0x8A, 0x2B, 0x5C}, A0 = {0xAC, 0xAC, 0xAD, 0xAE, 0xAE, 0xAF};
    uint8_t crc8(const Bytes &b)
    {
        uint8_t crc = 0xFF;
        for (uint8_t c : b) { crc ^= c; for (int i = 0; i < 8; i++) crc = (crc & 0x80) ? (uint8_t)((crc << 1) ^ 0x31) : (uint8_t)(crc << 1); }
        return crc;
    }
    Bytes ref_encode(const Alphabet &a, const Bytes &p)
    {
        Bytes o = {a.START}, body = p;
        body.push_back(crc8(p));
        for (uint8_t c : body)
        {
            if (c == a.START) { o.push_back(a.STUB); o.push_back(a.C_START); }
            else if (c == a.STUB) { o.push_back(a.STUB); o.push_back(a.C_STUB); }
            else if (c == a.STOP) { o.push_back(a.STUB); o.push_back(a.C_STOP); }
            else o.push_back(c);
        }
        o.push_back(a.STOP);
        return o;
    }
    enum { OP_SCHED = 0, OP_ACT = 1 };
    struct ThrEncWorld : World
    {
        const char *name() const override { return "concurrent-senders"; }
        Plan generate(Rng &r, Tier tier) override
        {
            Plan p;
            int nt = (int)r.range(2, 3);
            int memk = (int)r.pick<int64_t>({1, 2, 3, 5, 9, 0});
            p.cfg = {nt, 0, memk};
            Op s = {OP_SCHED};
            int n = tier == THOROUGH ? 900 : 500;
            int style = (int)r.below(2);
            for (int i = 0; i < n; i++) s.push_back(style ? (int64_t)r.below(4) : (r.chance(2, 3) ? 0 : (int64_t)r.below(4)));
            p.ops.push_back(s);
            for (int t = 0; t < nt; t++)
            {
                int variant = (int)r.below(3), enc = (int)r.below(2);
                int k = (int)r.range(1, 3);
                for (int j = 0; j < k; j++)
                {
                    Op o = {OP_ACT, t, variant, enc};
                    int len = (int)r.range(0, 6);
                    const int64_t sp[] = {0xA8, 0xB2, 0xC5, 0xAC, 0xAD, 0x8A, 0xAE, 0x00};
                    for (int i = 0; i < len; i++) o.push_back(r.chance(2, 3) ? sp[r.below(8)] : (int64_t)r.below(256));
                    p.ops.push_back(o);
                }
            }
            return p;
        }
        Result execute(const Plan &p, Trace &tr) override
        {
            Result res;
            int nt = (int)mod(p.c(0) - 2, 2) + 2;
            thr::Config cfg;
            cfg.prop = "C04";
            cfg.sched_mode = 0;
            cfg.mem_preempt_every = (int)mod(p.c(2), 20);
            struct Job { int variant, enc; Bytes payload; std::unique_ptr<char[]> in, out; };
            std::vector<std::vector<Job>> jobs(nt);
            for (auto &o : p.ops)
            {
                if (arg(o, 0) == OP_SCHED) cfg.choices.insert(cfg.choices.end(), o.begin() + 1, o.end());
                else if (arg(o, 0) == OP_ACT)
                {
                    Job j;
                    j.variant = (int)mod(arg(o, 2), 3);
                    j.enc = (int)mod(arg(o, 3), 2);
                    for (size_t i = 4; i < o.size(); i++) j.payload.push_back((uint8_t)mod(o[i], 256));
                    // buffers are allocated here, before the run, one pair per job: no heap reuse between simulated threads
                    j.in.reset(new char[j.payload.size() + 1]);
                    memcpy(j.in.get(), j.payload.data(), j.payload.size());
                    j.out.reset(new char[2 * j.payload.size() + 8]);
                    jobs[mod(arg(o, 1), nt)].push_back(std::move(j));
                }
            }
            std::vector<std::function<void()>> bodies;
            for (int t = 0; t < nt; t++)
                bodies.push_back([&, t]() {
                    for (auto &j : jobs[t])
                    {
                        thr::api_enter();
                        int len = c04_encode(j.variant, j.enc, j.in.get(), j.payload.size(), j.out.get());
                        thr::api_exit();
                        Bytes want = ref_encode(j.variant == 0 ? A1 : A0, j.payload);
                        if (len != (int)want.size() || memcmp(j.out.get(), want.data(), want.size()) != 0)
                            thr::report("C04/thr-frame-bytes", "a frame encoded while another thread was encoding differs from the reference encoding of its payload");
                    }
                });
            thr::Hooks hooks;
            thr::RunResult rr = thr::run(cfg, bodies, tr, hooks);
            res.steps = rr.mem_accesses;
            res.simtime = rr.decisions;
            res.nontrivial = rr.overlap_switches > 0;
            if (rr.violation) { res.violation = true; res.sig = rr.sig; res.detail = rr.detail; }
            stat("context_switches", rr.switches);
            if (rr.overlap_switches) probe("encoders_overlapped");
            return res;
        }
    };
}
int main(int argc, char **argv)
{
    ThrEncWorld w;
    Harness h;
    h.property = "C04";
    h.worlds = {&w};
    h.real = {"igris/protocols/gstuff.cpp and gstuff_v1/gstuff.c encoders under thread schedules"};
    h.stub = {"seeded thread scheduler with preemption at instrumented memory accesses (sim/thr)"};
    return harness_main(h, argc, argv);
}
