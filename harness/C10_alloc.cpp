// C10 — allocators driven by several client tasks that allocate, free, reallocate and die (engine E6, DESIGN.md 5 C10).
// Real: igris/datastruct/pool.h, igris/container/pool.h, igris/container/static_object_pool.h, igris/datastruct/slist.h,
//       compat/mem/lin_malloc.cpp + lin_realloc.cpp (symbols renamed to lin_* with objcopy; arena = _heap_start[] below),
//       igris/sync/critical_context.c, igris/sync/syslock_mutex.cpp.   Stub: the clients.
#include "../sim/kit.h"

#include <igris/container/pool.h>
#include <igris/container/static_object_pool.h>
#include <igris/datastruct/pool.h>

#include <map>
#include <sys/mman.h>
#include <set>
#include <memory>

using namespace kit;

// ---- the bare-metal heap under test (renamed on the object files)
extern "C" void *lin_malloc(size_t);
extern "C" void lin_free(void *);
extern "C" void *lin_realloc(void *, size_t);
enum { ARENA = 1 << 18 };
alignas(64) char _heap_start[ARENA + 64];
extern char *__brkval;
extern char *__malloc_heap_start;
struct __freelist;
// debugging internals of the heap: used when present, not required (a heap without them must still build and pass)
extern struct __freelist *__flp __attribute__((weak));
extern int __allocation_counter __attribute__((weak));

namespace
{
    uint8_t pat(uint64_t seed, size_t i) { return (uint8_t)((seed * 0x9E3779B97F4A7C15ull + i * 131) >> 24) | 1; }

    struct Block
    {
        char *p;
        size_t size; // bytes the client owns
        uint64_t seed;
        int owner;
        uint64_t serial;
    };

    // shadow of live blocks, shared by the heap and pool worlds
    struct Shadow
    {
        std::map<char *, Block> live; // by address
        uint64_t serial = 0;
        char *lo = nullptr, *hi = nullptr;
        void check_new(char *p, size_t size, size_t hdr, const char *who)
        {
            if (!p) violate(std::string("C10/") + who + "-null", "allocation of %zu bytes returned null", size);
            if (p - hdr < lo || p + size > hi)
                violate(std::string("C10/") + who + "-outside-arena", "block [%td,%td) outside the arena of %td bytes", p - lo, p - lo + (ptrdiff_t)size, hi - lo);
            // overlap with any live block (the new block's header must not lie in somebody's payload either)
            auto it = live.lower_bound(p);
            if (it != live.end() && it->first - (ptrdiff_t)hdr < p + size)
                violate(std::string("C10/") + who + "-overlap", "new block [%td,%td) overlaps live block at %td (size %zu)", p - lo, p - lo + (ptrdiff_t)size, it->first - lo, it->second.size);
            if (it != live.begin())
            {
                --it;
                if (it->first + it->second.size > p - hdr)
                    violate(std::string("C10/") + who + "-overlap", "new block [%td,%td) (header %zu) overlaps live block [%td,%td)", p - lo, p - lo + (ptrdiff_t)size, hdr, it->first - lo,
                            it->first - lo + (ptrdiff_t)it->second.size);
            }
        }
        Block &add(char *p, size_t size, int owner)
        {
            Block b{p, size, ++serial * 7919 + (uint64_t)owner, owner, serial};
            for (size_t i = 0; i < size; i++) p[i] = (char)pat(b.seed, i);
            return live[p] = b;
        }
        void verify(const Block &b, const char *who, const char *when)
        {
            for (size_t i = 0; i < b.size; i++)
                if ((uint8_t)b.p[i] != pat(b.seed, i))
                    violate(std::string("C10/") + who + "-content-clobbered", "%s: byte %zu of live block at %td (size %zu) changed from %02x to %02x", when, i, b.p - lo, b.size,
                            pat(b.seed, i), (uint8_t)b.p[i]);
        }
        void verify_all(const char *who, const char *when)
        {
            for (auto &kv : live) verify(kv.second, who, when);
        }
        std::vector<char *> of(int owner)
        {
            std::vector<std::pair<uint64_t, char *>> v;
            for (auto &kv : live)
                if (kv.second.owner == owner) v.push_back({kv.second.serial, kv.first});
            std::sort(v.begin(), v.end());
            std::vector<char *> r;
            for (auto &x : v) r.push_back(x.second);
            return r;
        }
    };

    const size_t SIZES[] = {0, 1, 7, 8, 9, 15, 16, 17, 24, 56, 63, 64, 65, 72, 100, 127, 128, 129, 200, 500, 1000, 3000};
    enum { NSIZES = sizeof SIZES / sizeof SIZES[0] };

    // ---------------------------------------------------------------- bare-metal heap
    // ops: [0 malloc c sz] [1 free c idx] [2 realloc c idx sz] [3 die c order] [4 realloc_null c sz] [5 free_null]
    struct HeapWorld : World
    {
        const char *name() const override { return "lin-heap"; }
        unsigned weight(Tier) const override { return 4; }
        Plan generate(Rng &r, Tier tier) override
        {
            Plan p;
            int nc = (int)r.range(2, 4);
            int order_bias = (int)r.below(3); // LIFO / FIFO / random frees
            p.cfg = {nc};
            int n = (int)r.range(4, tier == THOROUGH ? 160 : 60);
            if (r.chance(1, 40)) n *= 25; // a long history: what only accumulates over hundreds or thousands of operations
            int small = r.chance(1, 2);
            for (int i = 0; i < n; i++)
            {
                unsigned k = (unsigned)r.below(100);
                int64_t c = (int64_t)r.below(nc);
                int64_t sz = small ? (int64_t)r.below(14) : (int64_t)r.below(NSIZES);
                int64_t idx = order_bias == 0 ? -1 : (order_bias == 1 ? 0 : (int64_t)r.below(50));
                if (k < 40) p.ops.push_back({0, c, sz});
                else if (k < 65) p.ops.push_back({1, c, idx});
                else if (k < 88) p.ops.push_back({2, c, r.chance(1, 2) ? -1 : (int64_t)r.below(50), sz});
                else if (k < 93) p.ops.push_back({3, c, (int64_t)r.below(3)});
                else if (k < 97) p.ops.push_back({4, c, sz});
                else if (k < 99) p.ops.push_back({6, c, r.chance(1, 2) ? -1 : (int64_t)r.below(50), (int64_t)r.below(6)});
                else p.ops.push_back({5});
            }
            return p;
        }
        std::string describe(const Plan &p) override
        {
            static const char *nm[] = {"malloc", "free", "realloc", "die", "realloc(null)", "free(null)", "realloc(absurd size)"};
            std::string s = "clients=" + std::to_string(mod(p.c(0) - 2, 3) + 2) + ":";
            for (auto &o : p.ops)
            {
                int k = (int)mod(arg(o, 0), 7);
                s += std::string(" ") + nm[k] + "[c" + std::to_string(arg(o, 1));
                if (k == 0 || k == 4) s += "," + std::to_string(SIZES[mod(arg(o, 2), NSIZES)]) + "B";
                if (k == 1) s += ",#" + std::to_string(arg(o, 2));
                if (k == 2) s += ",#" + std::to_string(arg(o, 2)) + "->" + std::to_string(SIZES[mod(arg(o, 3), NSIZES)]) + "B";
                s += "]";
            }
            return s;
        }
        Result execute(const Plan &p, Trace &tr) override
        {
            Result res;
            int nc = (int)mod(p.c(0) - 2, 3) + 2;
            // a clean heap for every run (an aborted earlier run may have left anything behind)
            __brkval = nullptr;
            if (&__flp) __flp = nullptr;
            if (&__allocation_counter) __allocation_counter = 0;
            Shadow sh;
            sh.lo = __malloc_heap_start;
            sh.hi = _heap_start + ARENA;
            if (__malloc_heap_start != _heap_start) violate("C10/harness", "arena symbol mismatch");
            const size_t HDR = sizeof(size_t);
            bool freed_between = false, reused_gap = false;
            size_t total = 0;
            auto pick = [&](int c, int64_t idx) -> char * {
                auto v = sh.of(c);
                if (v.empty()) return nullptr;
                return v[(size_t)mod(idx, (int64_t)v.size())]; // -1 = newest (LIFO), 0 = oldest (FIFO)
            };
            auto do_free = [&](char *b) {
                Block blk = sh.live[b];
                sh.verify(blk, "heap", "before free");
                // is it between two live neighbours?
                auto it = sh.live.find(b);
                bool below = it != sh.live.begin(), above = std::next(it) != sh.live.end();
                if (below && above) freed_between = true;
                // both neighbours (by address) free already -> the free coalesces on both sides
                bool gap_below = below ? (std::prev(it)->first + std::prev(it)->second.size + 64 < b) : (b - HDR > sh.lo);
                bool gap_above = above ? (b + blk.size + 64 < std::next(it)->first) : false;
                if (gap_below && gap_above) probe("coalesce_both_sides");
                char *brk0 = __brkval;
                sh.live.erase(it);
                total -= blk.size;
                lin_free(b);
                if (__brkval < brk0) probe("brk_lowered");
                tr.ev("free size=%zu", blk.size);
            };
            for (auto &o : p.ops)
            {
                int kind = (int)mod(arg(o, 0), 7);
                int c = (int)mod(arg(o, 1), nc);
                switch (kind)
                {
                case 6:
                {
                    // a request no memory can satisfy: the end of the block would lie beyond the top of the address space. The heap
                    // refuses (null) and nothing changes: the block stays live with its content, the break stays where it is
                    char *b = pick(c, arg(o, 2));
                    if (!b) break;
                    static const size_t back[6] = {64, 100, 1000, 5000, (size_t)1 << 20, (size_t)1 << 32};
                    size_t absurd = (size_t)-1 - back[mod(arg(o, 3), 6)];
                    char *brk0 = __brkval;
                    char *nb = (char *)lin_realloc(b, absurd);
                    fault("request_beyond_the_address_space");
                    if (nb != nullptr)
                        violate("C10/heap-outside-arena", "realloc(%zu -> SIZE_MAX - %zu) returned a block at offset %td: no block of that size lies inside the arena", sh.live[b].size, back[mod(arg(o, 3), 6)], nb - sh.lo);
                    if (__brkval != brk0) violate("C10/heap-outside-arena", "a refused realloc moved the break by %td bytes", __brkval - brk0);
                    tr.ev("realloc absurd refused");
                    break;
                }
                case 0:
                case 4:
                {
                    if (sh.live.size() >= 60 || total > ARENA / 4) break; // configuration bound (allocation counter assert, arena)
                    size_t sz = SIZES[mod(arg(o, 2), NSIZES)];
                    char *brk0 = __brkval ? __brkval : __malloc_heap_start;
                    char *b = (char *)(kind == 0 ? lin_malloc(sz) : lin_realloc(nullptr, sz));
                    sh.check_new(b, sz, HDR, "heap");
                    if (((uintptr_t)b & 7) != 0) violate("C10/heap-alignment", "malloc(%zu) returned a pointer that is not 8-byte aligned (offset %td)", sz, b - sh.lo);
                    if (b < brk0) { probe("reused_free_chunk"); if (freed_between) reused_gap = true; }
                    sh.add(b, sz, c);
                    total += sz;
                    tr.ev("malloc %zu -> %td", sz, b - sh.lo);
                    break;
                }
                case 1:
                {
                    char *b = pick(c, arg(o, 2));
                    if (b) do_free(b);
                    break;
                }
                case 2:
                {
                    char *b = pick(c, arg(o, 2));
                    if (!b) break;
                    if (total > ARENA / 4) break;
                    size_t nsz = SIZES[mod(arg(o, 3), NSIZES)];
                    Block old = sh.live[b];
                    sh.verify(old, "heap", "before realloc");
                    bool was_top = (std::next(sh.live.find(b)) == sh.live.end());
                    sh.live.erase(b);
                    total -= old.size;
                    char *nb = (char *)lin_realloc(b, nsz);
                    if (!nb) violate("C10/heap-null", "realloc(%zu -> %zu) returned null", old.size, nsz);
                    sh.check_new(nb, nsz, HDR, "heap");
                    if (((uintptr_t)nb & 7) != 0) violate("C10/heap-alignment", "realloc returned a misaligned pointer");
                    size_t keep = std::min(old.size, nsz);
                    for (size_t i = 0; i < keep; i++)
                        if ((uint8_t)nb[i] != pat(old.seed, i))
                            violate("C10/realloc-prefix", "realloc(%zu -> %zu, %s) lost byte %zu of the common prefix", old.size, nsz, nb == b ? "in place" : "moved", i);
                    if (nsz > old.size)
                    {
                        if (nb != b) probe("move_realloc");
                        else if (was_top) probe("extend_top");
                        else probe("grow_in_place");
                    }
                    else if (nsz + 80 < old.size) probe("shrink_split");
                    sh.add(nb, nsz, c);
                    total += nsz;
                    tr.ev("realloc %zu -> %zu %s", old.size, nsz, nb == b ? "same" : "moved");
                    break;
                }
                case 3:
                {
                    // client death: everything it owns is released in a generated order
                    auto v = sh.of(c);
                    int order = (int)mod(arg(o, 2), 3);
                    fault("client_death");
                    while (!v.empty())
                    {
                        size_t i = order == 0 ? v.size() - 1 : (order == 1 ? 0 : (v.size() * 7 + 3) % v.size());
                        do_free(v[i]);
                        v.erase(v.begin() + i);
                    }
                    break;
                }
                case 5:
                    lin_free(nullptr);
                    break;
                }
                sh.verify_all("heap", "after op");
            }
            // everybody dies: the heap must return to its initial break with an empty free list
            for (int c = 0; c < nc; c++)
            {
                auto v = sh.of(c);
                for (size_t i = v.size(); i-- > 0;) do_free(v[i]);
            }
            if (__brkval != nullptr && __brkval != __malloc_heap_start)
                violate("C10/heap-memory-lost", "after freeing every block the break is %td bytes above the heap start", __brkval - __malloc_heap_start);
            if (&__flp && __flp != nullptr) violate("C10/heap-memory-lost", "after freeing every block the free list is not empty");
            if (&__allocation_counter && __allocation_counter != 0) violate("C10/heap-allocation-counter", "allocation counter is %d after freeing every block", __allocation_counter);
            if (p.ops.size() % 8 == 3)
            {
                // requests beyond 16 bits on the now empty heap: 70000 bytes, grown to 140000 in place, a small neighbour, all freed
                char *big = (char *)lin_malloc(70000);
                sh.check_new(big, 70000, HDR, "heap");
                for (size_t i = 0; i < 70000; i++) big[i] = (char)pat(77, i);
                char *small = (char *)lin_malloc(24);
                sh.check_new(small, 24, HDR, "heap");
                if (small < big + 70000) violate("C10/heap-overlap", "a 24-byte block at offset %td lies inside a live 70000-byte block at %td", small - sh.lo, big - sh.lo);
                lin_free(small);
                char *grown = (char *)lin_realloc(big, 140000);
                if (!grown || grown < sh.lo || grown + 140000 > sh.hi) violate("C10/heap-outside-arena", "realloc(70000 -> 140000) returned a block outside the arena");
                for (size_t i = 0; i < 70000; i++)
                    if ((uint8_t)grown[i] != pat(77, i)) violate("C10/realloc-prefix", "realloc(70000 -> 140000) lost byte %zu of the prefix", i);
                lin_free(grown);
                if (__brkval != nullptr && __brkval != __malloc_heap_start) violate("C10/heap-memory-lost", "after freeing a 140000-byte block the break is %td bytes above the heap start", __brkval - __malloc_heap_start);
                probe("request_over_65535_bytes");
            }
            if (p.ops.size() % 16 == 7)
            {
                // a request beyond 32 bits: the (now empty) heap is moved for a moment onto a 12 GiB mapping that costs nothing until
                // it is touched; 5 GiB are requested, the first and last page written, a small neighbour must lie behind the block
                static char *wide = (char *)mmap(nullptr, (size_t)12 << 30, PROT_READ | PROT_WRITE, MAP_PRIVATE | MAP_ANONYMOUS | MAP_NORESERVE, -1, 0);
                if (wide != (char *)MAP_FAILED)
                {
                    struct Home
                    {
                        char *home = __malloc_heap_start;
                        ~Home()
                        {
                            __malloc_heap_start = home;
                            __brkval = nullptr;
                            if (&__flp) __flp = nullptr;
                            if (&__allocation_counter) __allocation_counter = 0;
                        }
                    } back_home;
                    __malloc_heap_start = wide;
                    __brkval = nullptr;
                    const size_t n = ((size_t)5 << 30) + 40;
                    char *big = (char *)lin_malloc(n);
                    if (!big || big < wide + HDR || big + n > wide + ((size_t)12 << 30)) violate("C10/heap-outside-arena", "malloc(5 GiB + 40) returned a block outside the arena");
                    for (size_t i = 0; i < 4096; i++) big[i] = (char)pat(78, i), big[n - 1 - i] = (char)pat(79, i);
                    char *small = (char *)lin_malloc(24);
                    if (!small || small < wide + HDR || small + 24 > wide + ((size_t)12 << 30)) violate("C10/heap-outside-arena", "malloc(24) next to a 5 GiB block returned a block outside the arena");
                    if (small + 24 > big - HDR && small - HDR < big + n)
                        violate("C10/heap-overlap", "a 24-byte block at offset %td lies inside a live block of 5 GiB + 40 bytes at offset %td", small - wide, big - wide);
                    memset(small, 0x33, 24);
                    for (size_t i = 0; i < 4096; i++)
                        if ((uint8_t)big[i] != pat(78, i) || (uint8_t)big[n - 1 - i] != pat(79, i)) violate("C10/heap-content-clobbered", "the content of a block of 5 GiB + 40 bytes changed while it was live");
                    lin_free(small);
                    lin_free(big);
                    bool lost = __brkval != nullptr && __brkval != wide;
                    ptrdiff_t above = __brkval ? __brkval - wide : 0;
                    madvise(wide, (size_t)12 << 30, MADV_DONTNEED);
                    if (lost) violate("C10/heap-memory-lost", "after freeing a block of 5 GiB + 40 bytes the break is %td bytes above the heap start", above);
                    probe("request_over_4_GiB");
                }
            }
            res.nontrivial = reused_gap;
            return res;
        }
    };

    // ---------------------------------------------------------------- fixed-block pools
    // ops: [0 alloc c] [1 free c idx] [2 die c order] [3 query]
    // kinds: 0 C pool_head, 1 igris::pool, 2 static_object_pool<Obj, 6>
    struct Obj
    {
        static int live_count;
        static std::map<Obj *, int> registry;
        uint64_t a, b;
        int tag;
        explicit Obj(int t) : a(0x1111111111111111ull * (t & 7)), b(~a), tag(t)
        {
            if (registry.count(this)) violate("C10/object-constructed-over-live", "object constructed in a cell that still holds a live object");
            registry[this] = t;
            live_count++;
        }
        ~Obj()
        {
            if (!registry.count(this)) violate("C10/object-destroyed-twice", "destructor ran for an object that is not live");
            registry.erase(this);
            live_count--;
        }
    };
    int Obj::live_count = 0;
    std::map<Obj *, int> Obj::registry;

    struct PoolWorld : World
    {
        int kind;
        explicit PoolWorld(int k) : kind(k) {}
        const char *name() const override { return kind == 0 ? "c-pool" : kind == 1 ? "igris::pool" : "static_object_pool"; }
        unsigned weight(Tier) const override { return 2; }
        Plan generate(Rng &r, Tier tier) override
        {
            Plan p;
            int nc = (int)r.range(2, 4);
            int64_t elems = r.range(0, tier == THOROUGH ? 24 : 10); // capacity 0: an empty pool answers null at once
            int64_t elsz = r.pick<int64_t>({8, 8, 12, 16, 20, 24, 40, 64, 100});
            // cfg[3]: low 2 bits what the zone holds before it is engaged; next 3 bits (half of the runs) where the zone starts inside
            // the caller's block: a zone is any byte range, e.g. what is left of a buffer behind a header of 1..7 bytes
            p.cfg = {nc, elems, elsz, (int64_t)(r.below(4) + 4 * (r.chance(1, 2) ? r.below(8) : 0))};
            int n = (int)r.range(4, tier == THOROUGH ? 120 : 50);
            if (r.chance(1, 40)) n *= 25; // a long history: what only accumulates over hundreds or thousands of operations
            int phase = 0, left = 0;
            for (int i = 0; i < n; i++)
            {
                if (left == 0) { phase = (int)r.below(3); left = (int)r.range(1, 14); }
                left--;
                bool alloc = phase == 0 ? r.chance(1, 2) : phase == 1;
                int64_t c = (int64_t)r.below(nc);
                if (r.chance(1, 20)) p.ops.push_back({2, c, (int64_t)r.below(3)});
                else if (r.chance(1, 30)) p.ops.push_back({3, c});
                else if (alloc) p.ops.push_back({0, c});
                else p.ops.push_back({1, c, r.chance(1, 2) ? -1 : (int64_t)r.below(30)});
            }
            return p;
        }
        Result execute(const Plan &p, Trace &tr) override
        {
            Result res;
            int nc = (int)mod(p.c(0) - 2, 3) + 2;
            size_t elems = (size_t)mod(p.c(1), 65);
            size_t elsz = (size_t)mod(p.c(2) - 8, 200) + 8;
            if (elems == 0) probe("pool_capacity_zero");
            if (kind == 2) { elems = 6; elsz = sizeof(igris::static_object_pool<Obj, 6>::storage_type); }
            size_t zsize = elems * elsz;
            // exact-size zone: ASan red zones right behind the last cell
            // the zone sits between two other exact-size heap blocks: writes below it are caught like writes above it
            const size_t zoff = kind == 2 ? 0 : (size_t)mod(p.c(3) >> 2, 8);
            std::unique_ptr<char[]> zone_block(new char[zoff + zsize]);
            struct ZoneRef { char *p; char *get() const { return p; } } zone{zone_block.get() + zoff};
            memset(zone_block.get(), 0x5C, zoff); // the caller's bytes in front of the zone
            if (zoff) probe("zone_not_word_aligned");
            memset(zone.get(), (int)(mod(p.c(3), 4) == 0 ? 0x00 : mod(p.c(3), 4) == 1 ? 0xFF : 0xA5), zsize);
            pool_head ph;
            igris::pool ip;
            std::unique_ptr<igris::static_object_pool<Obj, 6>> sop, by_sop;
            Obj *by_obj[2] = {nullptr, nullptr};
            Obj::registry.clear();
            Obj::live_count = 0;
            Shadow sh;
            if (kind == 0) { pool_init(&ph); pool_engage(&ph, zone.get(), zsize, elsz); sh.lo = zone.get(); }
            else if (kind == 1)
            {
                // a default-constructed pool that has not been initialised yet holds nothing: null, free count 0
                if (ip.get() != nullptr || ip.avail() != 0 || ip.room() != 0) violate("C10/pool-before-init@igris::pool", "a default-constructed igris::pool hands out a block or reports free cells before init()");
                ip.put(nullptr);
                probe("pool_used_before_init");
                if (p.ops.size() % 16 == 5)
                {
                    // more than 65535 cells
                    const size_t cells = 70000;
                    std::unique_ptr<char[]> bz(new char[cells * 8]);
                    igris::pool bigp(bz.get(), cells * 8, 8);
                    if (bigp.size() != cells || bigp.avail() != cells) violate("C10/pool-avail@igris::pool", "a pool of 70000 cells reports size %zu, %zu free", bigp.size(), bigp.avail());
                    std::vector<char> seen(cells, 0);
                    for (size_t q = 0; q < cells; q++)
                    {
                        char *c = (char *)bigp.get();
                        if (!c || c < bz.get() || c >= bz.get() + cells * 8 || (c - bz.get()) % 8 || seen[(size_t)(c - bz.get()) / 8]++)
                            violate("C10/pool-null-before-capacity@igris::pool", "a pool of 70000 cells handed out %p as cell number %zu", (void *)c, q + 1);
                    }
                    if (bigp.get() != nullptr || bigp.avail() != 0 || bigp.room() != 0) violate("C10/pool-over-capacity@igris::pool", "a pool of 70000 cells is not exhausted after 70000 cells were handed out");
                    probe("pool_over_65535_cells");
                }
                ip.init(zone.get(), zsize, elsz);
                sh.lo = zone.get();
            }
            else
            {
                // a second pool object of the very same type lives next to the one under test and holds two objects of its own
                by_sop.reset(new igris::static_object_pool<Obj, 6>());
                by_obj[0] = by_sop->create(9001);
                by_obj[1] = by_sop->create(9002);
                sop.reset(new igris::static_object_pool<Obj, 6>());
                sh.lo = (char *)sop->storage.data();
            }
            sh.hi = sh.lo + zsize;
            bool exhausted = false, refilled = false;
            int tagc = 0;
            // a second pool of another geometry works next to the one under test: one cell taken and given back per operation
            std::unique_ptr<char[]> by_zone(new char[3 * 24]);
            igris::pool by_pool(by_zone.get(), 3 * 24, 24);
            auto bystander = [&]() {
                void *c1 = by_pool.get(), *c2 = by_pool.get();
                if (!c1 || !c2 || c1 == c2 || (char *)c1 < by_zone.get() || (char *)c1 >= by_zone.get() + 72 || by_pool.avail() != 1)
                    violate("C10/bystander", "a second pool working next to the one under test handed out %p and %p and reports %zu free cells of 3", c1, c2, by_pool.avail());
                memset(c1, 0xEE, 24);
                by_pool.put(c2);
                by_pool.put(c1);
                if (by_pool.avail() != 3) violate("C10/bystander", "a second pool working next to the one under test reports %zu free cells after everything was given back", by_pool.avail());
            };
            if (kind == 0)
            {
                // one pool head fed from two zones: the second zone is engaged while cells of the first are still free
                std::unique_ptr<char[]> za(new char[3 * 16]), zb(new char[2 * 16]);
                pool_head two;
                pool_init(&two);
                pool_engage(&two, za.get(), 3 * 16, 16);
                void *first = pool_alloc(&two);
                pool_engage(&two, zb.get(), 2 * 16, 16);
                if (pool_avail(&two) != 4) violate("C10/pool-avail@c-pool", "a pool fed from a zone of 3 cells (1 taken) and then a zone of 2 cells reports %zu free cells", (size_t)pool_avail(&two));
                std::set<void *> got = {first};
                for (int q = 0; q < 4; q++)
                {
                    void *c = pool_alloc(&two);
                    bool inside = c && (((char *)c >= za.get() && (char *)c < za.get() + 48) || ((char *)c >= zb.get() && (char *)c < zb.get() + 32));
                    if (!inside || !got.insert(c).second) violate("C10/pool-null-before-capacity@c-pool", "a pool fed from two zones (5 cells) handed out %p as cell number %d", c, q + 2);
                }
                if (pool_alloc(&two) != nullptr) violate("C10/pool-over-capacity@c-pool", "a pool fed from two zones (5 cells) handed out a sixth cell");
                for (void *c : got) pool_free(&two, c);
                if (pool_avail(&two) != 5) violate("C10/pool-avail@c-pool", "a pool fed from two zones reports %zu free cells after all 5 were given back", (size_t)pool_avail(&two));
                probe("pool_fed_from_two_zones");
            }
            auto avail = [&]() -> size_t { return kind == 0 ? pool_avail(&ph) : kind == 1 ? ip.avail() : sop->avail(); };
            auto check = [&](const char *when) {
                bystander();
                size_t want = elems - sh.live.size();
                if (avail() != want) violate(std::string("C10/pool-avail@") + name(), "%s: avail()=%zu, capacity %zu minus %zu live blocks = %zu", when, avail(), elems, sh.live.size(), want);
                if (kind == 1)
                {
                    if (ip.room() != want) violate("C10/pool-room@igris::pool", "%s: room()=%zu, capacity %zu minus %zu live = %zu", when, ip.room(), elems, sh.live.size(), want);
                    if (ip.size() != elems) violate("C10/pool-size@igris::pool", "size()=%zu elems=%zu", ip.size(), elems);
                    size_t n_alloc = 0;
                    for (size_t i = 0; i < elems; i++)
                    {
                        bool a = ip.cell_is_allocated((int)i);
                        bool m = sh.live.count(sh.lo + i * elsz) != 0;
                        if (a != m) violate("C10/pool-cell_is_allocated", "%s: cell %zu allocated=%d, shadow says %d", when, i, (int)a, (int)m);
                        n_alloc += a;
                    }
                    if (ip.cell_is_allocated(-1) || ip.cell_is_allocated((int)elems)) violate("C10/pool-cell_is_allocated", "out-of-range cell reported allocated");
                    size_t it_n = 0;
                    for (auto it = ip.begin(); it != ip.end(); ++it)
                    {
                        if (!sh.live.count((char *)*it)) violate("C10/pool-iterator", "iterator yields a cell that is not allocated");
                        if (++it_n > elems) violate("C10/pool-iterator", "iterator does not terminate");
                    }
                    if (it_n != n_alloc) violate("C10/pool-iterator", "iterator yields %zu cells, %zu are allocated", it_n, n_alloc);
                }
                if (kind == 0)
                    for (size_t i = 0; i < elems; i++)
                        if ((pool_in_freelist(&ph, sh.lo + i * elsz) != 0) == (sh.live.count(sh.lo + i * elsz) != 0))
                            violate("C10/pool-freelist", "%s: cell %zu is %s the free list but %s", when, i, sh.live.count(sh.lo + i * elsz) ? "in" : "not in",
                                    sh.live.count(sh.lo + i * elsz) ? "live" : "not live");
                if (kind == 2 && (size_t)Obj::live_count != sh.live.size() + 2) violate("C10/object-lifetime", "%d objects alive, %zu created and not destroyed", Obj::live_count - 2, sh.live.size());
                if (kind == 2)
                {
                    char *bl = (char *)by_sop->storage.data(), *bh = bl + sizeof(by_sop->storage);
                    for (int q = 0; q < 2; q++)
                    {
                        Obj *ob = by_obj[q];
                        if (!ob || (char *)ob < bl || (char *)ob >= bh || ob->tag != 9001 + q || ob->b != ~ob->a || ob->a != 0x1111111111111111ull * ((9001 + q) & 7))
                            violate("C10/bystander", "%s: an object held by a second static_object_pool of the same type next to the one under test was damaged or lies outside that pool", when);
                    }
                    if (bl < sh.hi && sh.lo < bh) violate("C10/bystander", "%s: two static_object_pool objects of the same type share their cell storage", when);
                    if (by_sop->avail() != 4) violate("C10/bystander", "%s: a second static_object_pool holding 2 of 6 objects reports %zu free cells", when, (size_t)by_sop->avail());
                }
                for (size_t i = 0; i < zoff; i++)
                    if ((unsigned char)zone_block[i] != 0x5C) violate(std::string("C10/pool-outside-arena@") + name(), "%s: the pool wrote to byte %zu in front of its zone", when, zoff - i);
                sh.verify_all(name(), when);
            };
            uint64_t free_tick = 0;
            auto do_free = [&](char *b) {
                sh.verify(sh.live[b], name(), "before free");
                sh.live.erase(b);
                if (kind != 2 && elsz >= sizeof(void *) && (free_tick++ % 3) != 0)
                {
                    // what the block holds when it is given back is the owner's business: here it is a list node whose first word
                    // still points at a sibling cell of the same pool (or at the block itself), as nodes of an intrusive list do
                    char *sibling = sh.live.empty() || free_tick % 3 == 1 ? b : sh.live.begin()->first;
                    memcpy(b, &sibling, sizeof sibling);
                    probe("block_returned_with_a_pointer_to_a_sibling_cell_in_it");
                }
                if (kind == 0) pool_free(&ph, b);
                else if (kind == 1) { if (free_tick % 4 == 1) { ip.put(nullptr); probe("null_given_back_to_the_pool"); } ip.put(b); } // (giving back NULL is a no-op)
                else sop->destroy((Obj *)b);
                tr.ev("free cell %td", (b - sh.lo) / (ptrdiff_t)elsz);
            };
            check("init");
            for (auto &o : p.ops)
            {
                int k = (int)mod(arg(o, 0), 4);
                int c = (int)mod(arg(o, 1), nc);
                if (k == 0)
                {
                    char *b;
                    if (kind == 0) b = (char *)pool_alloc(&ph);
                    else if (kind == 1) b = (char *)ip.get();
                    else b = (char *)sop->create(++tagc);
                    if (sh.live.size() == elems)
                    {
                        exhausted = true;
                        fault("pool_exhausted");
                        probe("pool_exhausted");
                        if (b) violate(std::string("C10/pool-over-capacity@") + name(), "pool of %zu cells handed out block number %zu", elems, elems + 1);
                    }
                    else
                    {
                        if (!b) violate(std::string("C10/pool-null-before-capacity@") + name(), "pool of %zu cells answered null with %zu live blocks", elems, sh.live.size());
                        if (b < sh.lo || b + elsz > sh.hi) violate(std::string("C10/pool-outside-arena@") + name(), "cell at offset %td outside the zone of %zu bytes", b - sh.lo, zsize);
                        if ((size_t)(b - sh.lo) % elsz != 0) violate(std::string("C10/pool-alignment@") + name(), "cell at offset %td is not on a %zu-byte cell boundary", b - sh.lo, elsz);
                        if (sh.live.count(b)) violate(std::string("C10/pool-overlap@") + name(), "cell %td handed out twice", (b - sh.lo) / (ptrdiff_t)elsz);
                        if (kind == 2)
                        {
                            // the object itself is the content; fill only what lies behind it
                            Obj *ob = (Obj *)b;
                            if (ob->tag != tagc || ob->b != ~ob->a) violate("C10/object-lifetime", "created object does not carry its constructor arguments");
                            Block bl{b, 0, 0, c, ++sh.serial};
                            sh.live[b] = bl;
                        }
                        else
                            sh.add(b, elsz, c);
                        if (exhausted) refilled = true;
                        tr.ev("alloc cell %td", (b - sh.lo) / (ptrdiff_t)elsz);
                    }
                }
                else if (k == 1)
                {
                    auto v = sh.of(c);
                    if (!v.empty()) do_free(v[(size_t)mod(arg(o, 2), (int64_t)v.size())]);
                }
                else if (k == 3 && kind == 0)
                {
                    // C API reset: pool_init + pool_engage over the same zone
                    sh.live.clear();
                    pool_init(&ph);
                    pool_engage(&ph, zone.get(), zsize, elsz);
                    probe("pool_reinit");
                    tr.ev("re-init");
                }
                else if (k == 3 && kind == 1)
                {
                    // the pool is initialised again over the same zone (a reset): whatever was handed out is forgotten by
                    // everybody, the pool must be exactly a fresh one
                    sh.live.clear();
                    ip.init(zone.get(), zsize, elsz);
                    probe("pool_reinit");
                    tr.ev("re-init");
                }
                else if (k == 2)
                {
                    auto v = sh.of(c);
                    int order = (int)mod(arg(o, 2), 3);
                    fault("client_death");
                    while (!v.empty())
                    {
                        size_t i = order == 0 ? v.size() - 1 : (order == 1 ? 0 : (v.size() * 7 + 3) % v.size());
                        do_free(v[i]);
                        v.erase(v.begin() + i);
                    }
                }
                check("after op");
            }
            // drain, then the pool must again hand out exactly its capacity
            while (!sh.live.empty()) do_free(sh.live.begin()->first);
            check("drained");
            res.nontrivial = exhausted && refilled;
            return res;
        }
    };

    // ---------------------------------------------------------------- static_object_pool over several element layouts
    // element types of different size / alignment: the slot size is max(sizeof(T), sizeof(slist_head)) rounded to the
    // slot alignment, which differs from sizeof(T) exactly for the odd sizes below
    struct LifeReg
    {
        std::map<void *, int> live;
        void born(void *p, int tag)
        {
            if (live.count(p)) violate("C10/object-constructed-over-live", "object constructed in a cell that still holds a live object");
            live[p] = tag;
        }
        void died(void *p)
        {
            if (!live.count(p)) violate("C10/object-destroyed-twice", "destructor ran for an object that is not live");
            live.erase(p);
        }
    };
    LifeReg g_life;
    template <size_t N, size_t A> struct alignas(A) Elem
    {
        unsigned char raw[N];
        explicit Elem(int tag)
        {
            g_life.born(this, tag);
            for (size_t i = 0; i < N; i++) raw[i] = pat((uint64_t)tag, i);
        }
        ~Elem()
        {
            // the destructor looks at the object it is destroying (a canary check, an unlink from a list ...): its bytes must
            // still be the ones the constructor wrote
            auto it = g_life.live.find(this);
            if (it != g_life.live.end())
                for (size_t i = 0; i < N; i++)
                    if (raw[i] != pat((uint64_t)it->second, i))
                    {
                        char msg[160];
                        snprintf(msg, sizeof msg, "byte %zu of a %zu-byte object had been overwritten when its destructor ran", i, N);
                        kit::defer_violation("C10/object-clobbered-before-destructor", "%s", msg);
                        break;
                    }
            g_life.died(this);
        }
    };

    template <class T, size_t Cap> void run_sop(const Plan &p, Trace &tr, Result &res)
    {
        int nc = (int)mod(p.c(0) - 2, 3) + 2;
        g_life.live.clear();
        typedef igris::static_object_pool<T, Cap> Pool;
        // the pool is a member of a larger object (16 bytes of other data in front of it), and that object sits in memory
        // that is aligned far beyond any requirement: the address of the pool is then decided by its own alignment alone
        struct Holder
        {
            char lead[16];
            Pool pool;
        };
        struct Free
        {
            void operator()(Holder *h) const { h->~Holder(); free(h); }
        };
        void *raw = aligned_alloc(256, (sizeof(Holder) + 255) / 256 * 256);
        std::unique_ptr<Holder, Free> holder(new (raw) Holder());
        Pool *pool = &holder->pool;
        if (alignof(T) > alignof(max_align_t)) probe("over_aligned_element_type");
        const size_t slot = sizeof(typename Pool::storage_type);
        char *lo = (char *)pool->storage.data(), *hi = lo + Cap * slot;
        std::map<char *, std::pair<int, int>> live; // cell -> (tag, owner)
        std::vector<char *> reserved;               // cells taken through the pool's C free list (freelist()), no object in them
        int tagc = 0;
        bool exhausted = false, refilled = false;
        auto check = [&](const char *when) {
            check_deferred();
            if (pool->avail() != Cap - live.size() - reserved.size())
                violate("C10/pool-avail@static_object_pool", "%s: avail()=%zu, capacity %zu minus %zu live objects minus %zu cells reserved through freelist() (element %zu bytes, slot %zu bytes)", when, pool->avail(), (size_t)Cap,
                        live.size(), reserved.size(), sizeof(T), slot);
            if (g_life.live.size() != live.size()) violate("C10/object-lifetime", "%s: %zu objects alive, %zu created and not destroyed", when, g_life.live.size(), live.size());
            for (auto &kv : live)
                for (size_t i = 0; i < sizeof(T); i++)
                    if (((T *)kv.first)->raw[i] != pat((uint64_t)kv.second.first, i))
                        violate("C10/static_object_pool-content-clobbered", "%s: byte %zu of a live %zu-byte object changed", when, i, sizeof(T));
        };
        auto destroy = [&](char *b) {
            live.erase(b);
            pool->destroy((T *)b);
            tr.ev("destroy cell %td", (b - lo) / (ptrdiff_t)slot);
        };
        auto owned = [&](int c) {
            std::vector<std::pair<int, char *>> v;
            for (auto &kv : live)
                if (kv.second.second == c) v.push_back({kv.second.first, kv.first});
            std::sort(v.begin(), v.end());
            return v;
        };
        check("init");
        for (auto &o : p.ops)
        {
            int k = (int)mod(arg(o, 0), 4);
            int c = (int)mod(arg(o, 1), nc);
            if (k == 3)
            {
                // the pool's other interface: it hands out its C free list (freelist()), through which a caller reserves a raw cell
                // with pool_alloc() and gives it back with pool_free(); both interfaces work on one stock of cells
                if (mod(arg(o, 2), 2) == 0 || reserved.empty())
                {
                    char *cell = (char *)pool_alloc(pool->freelist());
                    if (live.size() + reserved.size() == Cap) { if (cell) violate("C10/pool-over-capacity@static_object_pool", "pool_alloc(freelist()) handed out a cell of a pool whose %zu cells are all taken", (size_t)Cap); }
                    else
                    {
                        if (!cell || cell < lo || cell + slot > hi || (size_t)(cell - lo) % slot != 0 || live.count(cell) || std::find(reserved.begin(), reserved.end(), cell) != reserved.end())
                            violate("C10/pool-overlap@static_object_pool", "pool_alloc(freelist()) returned %s", !cell ? "null although cells are free" : "a cell that is taken, or no cell of this pool");
                        reserved.push_back(cell);
                        probe("cell_reserved_through_freelist");
                    }
                }
                else
                {
                    size_t j = (size_t)mod(arg(o, 1), (int64_t)reserved.size());
                    pool_free(pool->freelist(), reserved[j]);
                    reserved.erase(reserved.begin() + (long)j);
                }
                check("after raw op");
                continue;
            }
            if (k == 0)
            {
                T *obj = pool->create(++tagc);
                char *b = (char *)obj;
                if (live.size() + reserved.size() == Cap)
                {
                    exhausted = true;
                    fault("pool_exhausted");
                    probe("pool_exhausted");
                    if (b) violate("C10/pool-over-capacity@static_object_pool", "pool of %zu objects (element %zu bytes) handed out object number %zu", (size_t)Cap, sizeof(T), (size_t)Cap + 1);
                }
                else
                {
                    if (!b) violate("C10/pool-null-before-capacity@static_object_pool", "pool of %zu objects answered null with %zu live", (size_t)Cap, live.size());
                    if (b < lo || b + sizeof(T) > hi) violate("C10/pool-outside-arena@static_object_pool", "object at offset %td outside the storage of %zu bytes", b - lo, (size_t)(hi - lo));
                    if ((size_t)(b - lo) % slot != 0) violate("C10/pool-alignment@static_object_pool", "object at offset %td is not on a %zu-byte slot boundary (element %zu bytes)", b - lo, slot, sizeof(T));
                    if (((uintptr_t)b) % alignof(T) != 0) violate("C10/pool-alignment@static_object_pool", "object misaligned for its type");
                    if (live.count(b)) violate("C10/pool-overlap@static_object_pool", "slot handed out twice");
                    live[b] = {tagc, c};
                    if (exhausted) refilled = true;
                    tr.ev("create cell %td", (b - lo) / (ptrdiff_t)slot);
                }
            }
            else if (k == 1)
            {
                auto v = owned(c);
                if (!v.empty()) destroy(v[(size_t)mod(arg(o, 2), (int64_t)v.size())].second);
            }
            else if (k == 2)
            {
                auto v = owned(c);
                int order = (int)mod(arg(o, 2), 3);
                fault("client_death");
                while (!v.empty())
                {
                    size_t i = order == 0 ? v.size() - 1 : (order == 1 ? 0 : (v.size() * 7 + 3) % v.size());
                    destroy(v[i].second);
                    v.erase(v.begin() + i);
                }
            }
            check("after op");
        }
        while (!live.empty()) destroy(live.begin()->first);
        while (!reserved.empty()) { pool_free(pool->freelist(), reserved.back()); reserved.pop_back(); }
        check("drained");
        res.nontrivial = exhausted && refilled;
    }

    // an element whose constructor allocates from the same pool (a chain node that creates its successor): create() is
    // re-entered while the outer object is under construction
    struct Nested
    {
        Nested *child = nullptr;
        int tag;
        unsigned char raw[12];
        static void *release_to; // set while an owner is destroyed that gives its successor back to the same pool
        Nested(void *pool, int depth, int *tagc);
        ~Nested();
    };
    void *Nested::release_to = nullptr;
    typedef igris::static_object_pool<Nested, 6> NestedPool;
    Nested::~Nested()
    {
        for (size_t i = 0; i < sizeof raw; i++)
            if (raw[i] != pat((uint64_t)tag, i)) { kit::defer_violation("C10/object-clobbered-before-destructor", "%s", "a chain node had been overwritten when its destructor ran"); break; }
        g_life.died(this);
        // destroy() is re-entered while the outer object is being destroyed
        if (release_to && child)
        {
            Nested *c = child;
            child = nullptr;
            ((NestedPool *)release_to)->destroy(c);
        }
    }
    Nested::Nested(void *pool, int depth, int *tagc) : tag(++*tagc)
    {
        g_life.born(this, tag);
        for (size_t i = 0; i < sizeof raw; i++) raw[i] = pat((uint64_t)tag, i);
        if (depth > 0) child = ((NestedPool *)pool)->create(pool, depth - 1, tagc);
    }
    void run_sop_nested(const Plan &p, Trace &tr, Result &res)
    {
        g_life.live.clear();
        const size_t Cap = 6;
        std::unique_ptr<NestedPool> pool(new NestedPool());
        const size_t slot = sizeof(NestedPool::storage_type);
        char *lo = (char *)pool->storage.data(), *hi = lo + Cap * slot;
        std::map<char *, int> live; // cell -> tag
        int tagc = 0;
        bool exhausted = false, refilled = false, nested = false;
        auto adopt = [&](Nested *n) {
            // everything a create() call produced: the object and the chain hanging off it
            for (; n; n = n->child)
            {
                char *b = (char *)n;
                if (b < lo || b + sizeof(Nested) > hi || (size_t)(b - lo) % slot != 0) violate("C10/pool-outside-arena@static_object_pool", "nested create: object at offset %td is not a cell of the pool", b - lo);
                if (live.count(b)) violate("C10/pool-overlap@static_object_pool", "nested create: cell %td handed out twice (an object was constructed over a live one)", (b - lo) / (ptrdiff_t)slot);
                live[b] = n->tag;
            }
        };
        auto check = [&](const char *when) {
            check_deferred();
            if (pool->avail() != Cap - live.size()) violate("C10/pool-avail@static_object_pool", "%s: avail()=%zu, capacity %zu minus %zu live objects (nested create)", when, pool->avail(), Cap, live.size());
            if (g_life.live.size() != live.size()) violate("C10/object-lifetime", "%s: %zu objects alive, %zu known to the clients (nested create)", when, g_life.live.size(), live.size());
            if (live.size() > Cap) violate("C10/pool-over-capacity@static_object_pool", "%s: %zu live objects in a pool of %zu", when, live.size(), Cap);
            for (auto &kv : live)
                for (size_t i = 0; i < sizeof(((Nested *)0)->raw); i++)
                    if (((Nested *)kv.first)->raw[i] != pat((uint64_t)kv.second, i)) violate("C10/static_object_pool-content-clobbered", "%s: byte %zu of a live chain node changed", when, i);
        };
        check("init");
        for (auto &o : p.ops)
        {
            int k = (int)mod(arg(o, 0), 4);
            if (k == 0)
            {
                int depth = (int)mod(arg(o, 1), 4);
                size_t before = live.size();
                Nested *n = pool->create((void *)pool.get(), depth, &tagc);
                if (before == Cap)
                {
                    exhausted = true;
                    fault("pool_exhausted");
                    if (n) violate("C10/pool-over-capacity@static_object_pool", "full pool handed out another object (nested create)");
                }
                else if (!n) violate("C10/pool-null-before-capacity@static_object_pool", "pool answered null with %zu of %zu live (nested create)", before, Cap);
                adopt(n);
                if (n && n->child) { nested = true; probe("constructor_allocates_from_same_pool"); }
                if (exhausted && n) refilled = true;
                tr.ev("create chain depth %d -> %zu live", depth, live.size());
            }
            else if (!live.empty())
            {
                auto it = live.begin();
                std::advance(it, (long)mod(arg(o, 2), (int64_t)live.size()));
                Nested *n = (Nested *)it->first;
                for (auto &kv : live)
                    if (((Nested *)kv.first)->child == n) ((Nested *)kv.first)->child = nullptr; // its owner forgets it
                if (mod(arg(o, 1), 2) == 1)
                {
                    // the owner takes its chain with it: every destructor gives the successor back to the same pool
                    size_t chain = 0;
                    for (Nested *q = n; q; q = q->child, chain++) live.erase((char *)q);
                    Nested::release_to = pool.get();
                    pool->destroy(n);
                    Nested::release_to = nullptr;
                    if (chain > 1) probe("destructor_releases_to_same_pool");
                }
                else
                {
                    // children stay alive (they are independent objects of the same client); forget the link
                    live.erase(it);
                    pool->destroy(n);
                }
                tr.ev("destroy -> %zu live", live.size());
            }
            check("after op");
        }
        while (!live.empty())
        {
            Nested *n = (Nested *)live.begin()->first;
            live.erase(live.begin());
            pool->destroy(n);
        }
        check("drained");
        res.nontrivial = nested && exhausted && refilled;
    }

    struct SopWorld : World
    {
        const char *name() const override { return "static_object_pool<T,N>"; }
        unsigned weight(Tier) const override { return 2; }
        Plan generate(Rng &r, Tier tier) override
        {
            Plan p;
            int nc = (int)r.range(2, 4);
            p.cfg = {nc, (int64_t)r.below(11), (int64_t)r.below(3)};
            int n = (int)r.range(4, tier == THOROUGH ? 100 : 45);
            if (r.chance(1, 40)) n *= 25; // a long history: what only accumulates over hundreds or thousands of operations
            int phase = 0, left = 0;
            for (int i = 0; i < n; i++)
            {
                if (left == 0) { phase = (int)r.below(3); left = (int)r.range(1, 12); }
                left--;
                bool alloc = phase == 0 ? r.chance(1, 2) : phase == 1;
                int64_t c = (int64_t)r.below(nc);
                if (r.chance(1, 20)) p.ops.push_back({2, c, (int64_t)r.below(3)});
                else if (r.chance(1, 10)) p.ops.push_back({3, (int64_t)r.below(9), alloc ? 0 : 1}); // raw cell through freelist(): reserve / give back
                else if (alloc) p.ops.push_back({0, c});
                else p.ops.push_back({1, c, r.chance(1, 2) ? -1 : (int64_t)r.below(30)});
            }
            return p;
        }
        std::string describe(const Plan &p) override
        {
            static const char *tn[] = {"4B/align4", "8B/align8", "12B/align4", "20B/align4", "9B/align1", "24B/align8", "3B/align1", "32B/align32", "64B/align64", "16B/align16", "chain node whose constructor creates its successor from the same pool"};
            static const int caps[] = {1, 5, 9};
            return std::string("element ") + tn[mod(p.c(1), 11)] + " capacity " + std::to_string(caps[mod(p.c(2), 3)]) + " " + plan_to_json(p);
        }
        Result execute(const Plan &p, Trace &tr) override
        {
            Result res;
            int t = (int)mod(p.c(1), 11), c = (int)mod(p.c(2), 3);
            if (t == 10)
            {
                run_sop_nested(p, tr, res);
                return res;
            }
#define SOP_CASE(TI, N, A)                                                                                   \
    if (t == TI)                                                                                             \
    {                                                                                                        \
        if (c == 0) run_sop<Elem<N, A>, 1>(p, tr, res);                                                      \
        else if (c == 1) run_sop<Elem<N, A>, 5>(p, tr, res);                                                 \
        else run_sop<Elem<N, A>, 9>(p, tr, res);                                                             \
    }
            SOP_CASE(0, 4, 4)
            SOP_CASE(1, 8, 8)
            SOP_CASE(2, 12, 4)
            SOP_CASE(3, 20, 4)
            SOP_CASE(4, 9, 1)
            SOP_CASE(5, 24, 8)
            SOP_CASE(6, 3, 1)
            SOP_CASE(7, 32, 32)
            SOP_CASE(8, 64, 64)
            SOP_CASE(9, 16, 16)
            if (sizeof(Elem<12, 4>) != 12 || sizeof(Elem<9, 1>) != 9) violate("C10/harness", "element layout assumption broken");
            probe("object_pool_odd_element_size", (t == 2 || t == 3 || t == 4) ? 1 : 0);
            return res;
        }
    };
}

int main(int argc, char **argv)
{
    HeapWorld hw;
    PoolWorld p0(0), p1(1), p2(2);
    SopWorld sw;
    Harness h;
    h.property = "C10";
    h.worlds = {&hw, &p0, &p1, &p2, &sw};
    h.real = {"compat/mem/lin_malloc.cpp", "compat/mem/lin_realloc.cpp", "igris/datastruct/pool.h", "igris/container/pool.h", "igris/container/static_object_pool.h",
              "igris/datastruct/slist.h", "igris/sync/critical_context.c", "igris/sync/syslock_mutex.cpp (single thread)"};
    h.stub = {"client tasks (alloc/free/realloc/death, op-level interleaving from the plan)", "arena behind _heap_start, exact-size pool zones", "shadow map of live blocks with byte patterns"};
    return harness_main(h, argc, argv);
}
KIT_ASAN_OPTIONS()
