// C09, API 1: igris/serialize/archive.h + helper.h + stdtypes.h (igris::serialize / igris::deserialize, binary_string_writer,
// binary_buffer_reader) over the compiled-in type family.
#include <igris/serialize/stdtypes.h>
#include "C09_impl.h"
#include <memory>

namespace c09
{
    // user types exposing reflect()
    struct S1
    {
        int32_t a = 0;
        double b = 0;
        std::string c;
        template <class R> void reflect(R &r) { r & a; r & b; r & c; }
    };
    struct S2
    {
        S1 s;
        std::vector<S1> v;
        std::map<int32_t, std::string> m;
        uint8_t tail = 0;
        template <class R> void reflect(R &r) { r & s; r & v; r & m; r & tail; }
    };
    // user types with explicit serialize / deserialize members (third extension point of helper.h); they carry igris::buffer
    // payloads: written as u16 length + bytes, read back zero-copy (settable_buffer) or by copy (writable_buffer)
    struct B1
    {
        std::string payload;
        int32_t tag = 0;
        void serialize(igris::archive::binary_serializer_basic &m) const
        {
            m.dump(igris::buffer(payload.data(), payload.size()));
            m.dump(tag);
        }
        void deserialize(igris::archive::binary_deserializer_basic &m)
        {
            igris::buffer b;
            m.load_set_buffer(b);
            payload.assign(b.data(), b.size());
            m.load(tag);
        }
    };
    struct B2
    {
        std::string payload; // at most 40 bytes (the receiving buffer's size)
        uint16_t tail = 0;
        void serialize(igris::archive::binary_serializer_basic &m) const
        {
            m.dump(std::string_view(payload.data(), payload.size()));
            m.dump(tail);
        }
        void deserialize(igris::archive::binary_deserializer_basic &m)
        {
            char store[40];
            igris::archive::writable_buffer wb;
            wb = igris::buffer(store, sizeof store);
            m.load(wb);
            payload.assign(wb.data(), wb.size());
            m.load(tail);
        }
    };
    // the zero-copy view is the LAST member: decoding it leaves the reader exactly at the end of the bytes when the value is
    // the last one of a stream
    struct B3
    {
        int32_t id = 0;
        std::string body;
        void serialize(igris::archive::binary_serializer_basic &m) const
        {
            m.dump(id);
            // an empty body is written from an unset view (null data pointer, size 0): still a length of zero on the wire
            if (body.empty()) m.dump(igris::buffer());
            else m.dump(igris::buffer(body.data(), body.size()));
        }
        void deserialize(igris::archive::binary_deserializer_basic &m)
        {
            m.load(id);
            // one long-lived view object receives every zero-copy payload in turn (a receive loop that re-uses its view); what
            // it showed before is irrelevant: after the load it must show THIS payload
            static igris::buffer view;
            m.load_set_buffer(view);
            body.assign(view.data(), view.size());
            // (the view keeps pointing at this payload until the next load re-binds it; it is never read in between)
        }
    };
    // a copying reader whose destination is far bigger than any payload (64 KiB and more: wider than the 16-bit length field)
    struct B4
    {
        std::string payload;
        uint16_t tail = 0;
        void serialize(igris::archive::binary_serializer_basic &m) const
        {
            m.dump(std::string_view(payload.data(), payload.size()));
            m.dump(tail);
        }
        void deserialize(igris::archive::binary_deserializer_basic &m)
        {
            static char store[131072];
            static const size_t caps[] = {65536, 70000, 131072, 65535};
            igris::archive::writable_buffer wb;
            size_t cap_ = caps[((const unsigned char *)m.pointer())[0] % 4]; // (chosen by the low byte of the length on the wire)
            // the destination is described by assignment, or through the two setters in either order
            switch (((const unsigned char *)m.pointer())[0] / 4 % 4)
            {
            case 0: wb = igris::buffer(store, cap_); break;
            case 1: wb.size(cap_); wb.data(store); break;
            case 2: wb.data(store); wb.size(cap_); break;
            default:
            {
                // a long-lived destination that has just received an empty message from another stream and is re-armed by
                // giving it its room back (the storage stays where it is)
                static const char empty_wire[2] = {0, 0};
                igris::archive::binary_buffer_reader er(empty_wire, 2);
                wb.data(store);
                wb.size(cap_);
                igris::deserialize(er, wb);
                if (wb.size() != 0) kit::violate("C09/roundtrip@archive:B4", "an empty payload was decoded into a destination as %zu bytes", wb.size());
                wb.size(cap_);
                if (wb.data() != store) kit::violate("C09/destination-lost@archive", "a destination buffer that received an empty payload no longer points at its storage");
                kit::probe("destination_reused_after_empty_payload");
                break;
            }
            }
            m.load(wb);
            payload.assign(wb.data(), wb.size());
            m.load(tail);
        }
    };
    // a user type whose serialize / deserialize members are inherited from a (CRTP) base that frames every message with a
    // version byte; the type also has reflect() (used by tooling): the explicit members must win, as for a type that declares
    // them itself
    template <class D> struct Framed
    {
        void serialize(igris::archive::binary_serializer_basic &m) const
        {
            m.dump((uint8_t)0x5A);
            static_cast<const D *>(this)->body_out(m);
        }
        void deserialize(igris::archive::binary_deserializer_basic &m)
        {
            uint8_t ver = 0;
            m.load(ver);
            static_cast<D *>(this)->body_in(m);
            static_cast<D *>(this)->version_seen = ver;
        }
    };
    struct M1 : Framed<M1>
    {
        int16_t code = 0;
        std::string text;
        uint8_t version_seen = 0x5A;
        void body_out(igris::archive::binary_serializer_basic &m) const { m.dump(code); m.dump(std::string_view(text.data(), text.size())); }
        void body_in(igris::archive::binary_deserializer_basic &m)
        {
            m.load(code);
            igris::buffer b;
            m.load_set_buffer(b);
            text.assign(b.data(), b.size());
        }
        template <class R> void reflect(R &r) { r & code; r & text; }
    };
    template <> struct Ref<M1>
    {
        static M1 gen(kit::Rng &r, GenCfg &c) { M1 m; m.code = Ref<int16_t>::gen(r, c); m.text = Ref<std::string>::gen(r, c); return m; }
        static void enc(const M1 &v, std::string &o) { o.push_back((char)0x5A); Ref<int16_t>::enc(v.code, o); Ref<std::string>::enc(v.text, o); }
        static bool eq(const M1 &a, const M1 &b) { return a.code == b.code && a.text == b.text && a.version_seen == 0x5A && b.version_seen == 0x5A; }
        static bool is_container() { return true; }
    };
    template <> struct Ref<B3>
    {
        static B3 gen(kit::Rng &r, GenCfg &c)
        {
            B3 b;
            b.id = Ref<int32_t>::gen(r, c);
            b.body = Ref<std::string>::gen(r, c);
            // a third of the bodies come from a pair that agrees up to a zero byte and in length (consecutive messages that look
            // alike to a C-string comparison)
            if (c.specials && r.chance(1, 3)) b.body = r.chance(1, 2) ? std::string("ab\0cd", 5) : std::string("ab\0xy", 5);
            return b;
        }
        static void enc(const B3 &v, std::string &o) { Ref<int32_t>::enc(v.id, o); Ref<std::string>::enc(v.body, o); }
        static bool eq(const B3 &a, const B3 &b) { return a.body == b.body && a.id == b.id; }
        static bool is_container() { return true; }
    };
    template <> struct Ref<B4>
    {
        static B4 gen(kit::Rng &r, GenCfg &c) { B4 b; b.payload = Ref<std::string>::gen(r, c); b.tail = Ref<uint16_t>::gen(r, c); return b; }
        static void enc(const B4 &v, std::string &o) { Ref<std::string>::enc(v.payload, o); Ref<uint16_t>::enc(v.tail, o); }
        static bool eq(const B4 &a, const B4 &b) { return a.payload == b.payload && a.tail == b.tail; }
        static bool is_container() { return true; }
    };
    template <> struct Ref<B1>
    {
        static B1 gen(kit::Rng &r, GenCfg &c) { B1 b; b.payload = Ref<std::string>::gen(r, c); b.tag = Ref<int32_t>::gen(r, c); return b; }
        static void enc(const B1 &v, std::string &o) { Ref<std::string>::enc(v.payload, o); Ref<int32_t>::enc(v.tag, o); }
        static bool eq(const B1 &a, const B1 &b) { return a.payload == b.payload && a.tag == b.tag; }
        static bool is_container() { return true; }
    };
    template <> struct Ref<B2>
    {
        static B2 gen(kit::Rng &r, GenCfg &c)
        {
            B2 b;
            GenCfg c2 = c;
            c2.max_str = std::min<size_t>(c.max_str, 40);
            c2.big = false;
            b.payload = Ref<std::string>::gen(r, c2);
            b.tail = Ref<uint16_t>::gen(r, c);
            return b;
        }
        static void enc(const B2 &v, std::string &o) { Ref<std::string>::enc(v.payload, o); Ref<uint16_t>::enc(v.tail, o); }
        static bool eq(const B2 &a, const B2 &b) { return a.payload == b.payload && a.tail == b.tail; }
        static bool is_container() { return true; }
    };
    // a reflectable type whose default-constructed members are NOT empty: deserialize<T>() starts from such an object
    struct S4
    {
        std::string name = "unnamed";
        int32_t level = 7;
        std::string note = "n/a";
        template <class R> void reflect(R &r) { r & name; r & level; r & note; }
    };
    template <> struct Ref<S4>
    {
        static S4 gen(kit::Rng &r, GenCfg &c) { S4 s; s.name = Ref<std::string>::gen(r, c); s.level = Ref<int32_t>::gen(r, c); s.note = r.chance(1, 2) ? std::string() : Ref<std::string>::gen(r, c); return s; }
        static void enc(const S4 &v, std::string &o) { Ref<std::string>::enc(v.name, o); Ref<int32_t>::enc(v.level, o); Ref<std::string>::enc(v.note, o); }
        static bool eq(const S4 &a, const S4 &b) { return a.name == b.name && a.level == b.level && a.note == b.note; }
        static bool is_container() { return true; }
    };
    template <> struct Ref<S1>
    {
        static S1 gen(kit::Rng &r, GenCfg &c) { S1 s; s.a = Ref<int32_t>::gen(r, c); s.b = Ref<double>::gen(r, c); s.c = Ref<std::string>::gen(r, c); return s; }
        static void enc(const S1 &v, std::string &o) { Ref<int32_t>::enc(v.a, o); Ref<double>::enc(v.b, o); Ref<std::string>::enc(v.c, o); }
        static bool eq(const S1 &a, const S1 &b) { return a.a == b.a && Ref<double>::eq(a.b, b.b) && a.c == b.c; }
        static bool is_container() { return true; }
    };
    template <> struct Ref<S2>
    {
        static S2 gen(kit::Rng &r, GenCfg &c)
        {
            S2 s;
            s.s = Ref<S1>::gen(r, c);
            s.v = Ref<std::vector<S1>>::gen(r, c);
            s.m = Ref<std::map<int32_t, std::string>>::gen(r, c);
            s.tail = Ref<uint8_t>::gen(r, c);
            return s;
        }
        static void enc(const S2 &v, std::string &o) { Ref<S1>::enc(v.s, o); Ref<std::vector<S1>>::enc(v.v, o); Ref<std::map<int32_t, std::string>>::enc(v.m, o); Ref<uint8_t>::enc(v.tail, o); }
        static bool eq(const S2 &a, const S2 &b) { return Ref<S1>::eq(a.s, b.s) && Ref<std::vector<S1>>::eq(a.v, b.v) && Ref<std::map<int32_t, std::string>>::eq(a.m, b.m) && a.tail == b.tail; }
        static bool is_container() { return true; }
    };

    // a user type that writes a fixed-size array as one raw block through igris::archive::data<T> (no count on the wire)
    struct S5
    {
        int16_t samples[3] = {0, 0, 0};
        uint8_t gain = 0;
        template <class R> void reflect(R &r)
        {
            igris::archive::data<int16_t> blk(samples, 3);
            r & blk;
            r & gain;
        }
    };
    template <> struct Ref<S5>
    {
        static S5 gen(kit::Rng &r, GenCfg &c) { S5 s; for (auto &x : s.samples) x = Ref<int16_t>::gen(r, c); s.gain = Ref<uint8_t>::gen(r, c); return s; }
        static void enc(const S5 &v, std::string &o) { for (auto x : v.samples) Ref<int16_t>::enc(x, o); Ref<uint8_t>::enc(v.gain, o); }
        static bool eq(const S5 &a, const S5 &b) { return memcmp(a.samples, b.samples, sizeof a.samples) == 0 && a.gain == b.gain; }
        static bool is_container() { return false; }
    };

    // plain aggregates of integers without padding whose wire image is NOT their memory image: reflect() lists the members in
    // another order than they are declared (S6), or leaves a member out that is not part of the message (S7)
    struct S6
    {
        uint16_t version;
        uint16_t flags;
        uint32_t length;
        template <class R> void reflect(R &r) { r & length; r & version; r & flags; }
    };
    template <> struct Ref<S6>
    {
        static S6 gen(kit::Rng &r, GenCfg &c) { S6 s{}; s.version = Ref<uint16_t>::gen(r, c); s.flags = Ref<uint16_t>::gen(r, c); s.length = Ref<uint32_t>::gen(r, c); return s; }
        static void enc(const S6 &v, std::string &o) { Ref<uint32_t>::enc(v.length, o); Ref<uint16_t>::enc(v.version, o); Ref<uint16_t>::enc(v.flags, o); }
        static bool eq(const S6 &a, const S6 &b) { return a.version == b.version && a.flags == b.flags && a.length == b.length; }
        static bool is_container() { return false; }
        static std::string show(const S6 &v) { return "S6{" + std::to_string(v.version) + "," + std::to_string(v.flags) + "," + std::to_string(v.length) + "}"; }
    };
    struct S7
    {
        int32_t value;
        int32_t hits; // bookkeeping of the running program, not on the wire
        template <class R> void reflect(R &r) { r & value; }
    };
    template <> struct Ref<S7>
    {
        static S7 gen(kit::Rng &r, GenCfg &c) { S7 s{}; s.value = Ref<int32_t>::gen(r, c); s.hits = Ref<int32_t>::gen(r, c); return s; }
        static void enc(const S7 &v, std::string &o) { Ref<int32_t>::enc(v.value, o); }
        static bool eq(const S7 &a, const S7 &b) { return a.value == b.value; }
        static bool is_container() { return false; }
        static std::string show(const S7 &v) { return "S7{" + std::to_string(v.value) + "}"; }
    };
    // a polymorphic reflectable type handed to the archive through a reference to its base: the base's (non-virtual) reflect()
    // delegates to a virtual member, so the fields of the dynamic type go on the wire. V1 is the owner that does so.
    struct Shape
    {
        int32_t id = 0;
        virtual ~Shape() = default;
        virtual void fields(igris::archive::binary_serializer_basic &w) { w & id; }
        virtual void fields(igris::archive::binary_deserializer_basic &r) { r & id; }
        template <class R> void reflect(R &r) { fields(r); }
    };
    struct Circle : Shape
    {
        float radius = 0;
        std::string label;
        void fields(igris::archive::binary_serializer_basic &w) override { Shape::fields(w); w & radius; w & label; }
        void fields(igris::archive::binary_deserializer_basic &r) override { Shape::fields(r); r & radius; r & label; }
    };
    struct V1
    {
        Circle c;
        void serialize(igris::archive::binary_serializer_basic &m) const { const Shape &base = c; m & base; }
        void deserialize(igris::archive::binary_deserializer_basic &m) { Shape &base = c; m & base; }
    };
    template <> struct Ref<V1>
    {
        static V1 gen(kit::Rng &r, GenCfg &c) { V1 v; v.c.id = Ref<int32_t>::gen(r, c); v.c.radius = Ref<float>::gen(r, c); v.c.label = Ref<std::string>::gen(r, c); return v; }
        static void enc(const V1 &v, std::string &o) { Ref<int32_t>::enc(v.c.id, o); Ref<float>::enc(v.c.radius, o); Ref<std::string>::enc(v.c.label, o); }
        static bool eq(const V1 &a, const V1 &b) { return a.c.id == b.c.id && Ref<float>::eq(a.c.radius, b.c.radius) && a.c.label == b.c.label; }
        static bool is_container() { return true; }
        static std::string show(const V1 &v) { return "V1{" + std::to_string(v.c.id) + ",str[" + std::to_string(v.c.label.size()) + "]}"; }
    };
    // a reflectable marker type without members: its encoding is empty, a list of n of them is just the count n
    struct Marker
    {
        template <class R> void reflect(R &) {}
    };
    template <> struct Ref<Marker>
    {
        static Marker gen(kit::Rng &, GenCfg &) { return Marker(); }
        static void enc(const Marker &, std::string &) {}
        static bool eq(const Marker &, const Marker &) { return true; }
        static bool is_container() { return false; }
        static std::string show(const Marker &) { return "Marker"; }
    };
    // a frame type with explicit const serialize(): its sample array is const there, so the raw block is built by the
    // data<T>(const T*, n) constructor; deserialize() uses the non-const one. And a record with a fixed-size identifier written as a
    // length-prefixed block of exactly the size the reader offers (an 8-byte id read into char[8]).
    struct S8
    {
        int16_t samples[4] = {0, 0, 0, 0};
        uint8_t tag = 0;
        void serialize(igris::archive::binary_serializer_basic &m) const
        {
            igris::archive::data<int16_t> blk(samples, 4);
            m & blk;
            m.dump(tag);
        }
        void deserialize(igris::archive::binary_deserializer_basic &m)
        {
            igris::archive::data<int16_t> blk(samples, 4);
            m & blk;
            m.load(tag);
        }
    };
    template <> struct Ref<S8>
    {
        static S8 gen(kit::Rng &r, GenCfg &c) { S8 s; for (auto &x : s.samples) x = Ref<int16_t>::gen(r, c); s.tag = Ref<uint8_t>::gen(r, c); return s; }
        static void enc(const S8 &v, std::string &o) { for (auto x : v.samples) Ref<int16_t>::enc(x, o); Ref<uint8_t>::enc(v.tag, o); }
        static bool eq(const S8 &a, const S8 &b) { return memcmp(a.samples, b.samples, sizeof a.samples) == 0 && a.tag == b.tag; }
        static bool is_container() { return false; }
        static std::string show(const S8 &v) { return "S8{" + std::to_string(v.samples[0]) + ",..}"; }
    };
    struct B5
    {
        char id[8] = {0, 0, 0, 0, 0, 0, 0, 0};
        uint32_t seq = 0;
        void serialize(igris::archive::binary_serializer_basic &m) const
        {
            m.dump(id, (uint16_t)sizeof id);
            m.dump(seq);
        }
        void deserialize(igris::archive::binary_deserializer_basic &m)
        {
            m.load(id, (uint16_t)sizeof id);
            m.load(seq);
        }
    };
    template <> struct Ref<B5>
    {
        static B5 gen(kit::Rng &r, GenCfg &c) { B5 b; for (auto &x : b.id) x = (char)Ref<uint8_t>::gen(r, c); b.seq = Ref<uint32_t>::gen(r, c); return b; }
        static void enc(const B5 &v, std::string &o) { Ref<uint16_t>::enc(8, o); o.append(v.id, 8); Ref<uint32_t>::enc(v.seq, o); }
        static bool eq(const B5 &a, const B5 &b) { return memcmp(a.id, b.id, 8) == 0 && a.seq == b.seq; }
        static bool is_container() { return true; }
        static std::string show(const B5 &v) { return "B5{seq=" + std::to_string(v.seq) + "}"; }
    };
    struct P1
    {
        static const char *apiname() { return "archive"; }
        static const bool bounded = false;
        typedef igris::archive::binary_string_writer W;
        typedef igris::archive::binary_buffer_reader R;
        struct WHolder
        {
            std::string out;
            W wr;
            WHolder() : wr(out) {}
            W &w() { return wr; }
            const std::string &bytes() { return out; }
        };
        struct RHolder
        {
            const char *start;
            R rd;
            RHolder(const char *p, size_t n) : start(p), rd(p, n) {}
            R &r() { return rd; }
            size_t pos() { return (size_t)(rd.ptr - start); }
        };
        template <class T> static void put(W &w, const T &v)
        {
            // writer lifecycle: the stream's long-lived writer alternates with a second, short-lived writer on the same string
            // (a helper that appends with its own writer); both must append at the string's end
            size_t before = w.sstr.size();
            if (before & 1)
            {
                W helper(w.sstr);
                igris::serialize(helper, v);
            }
            else
                igris::serialize(w, v);
            if constexpr (std::is_same<T, long double>::value) normalise_long_double_tail(w.sstr, before, "archive");
            // and a long-lived writer whose frame string the owner clears between messages writes each message from offset 0
            static std::string frame;
            static W frame_writer(frame);
            frame.clear();
            igris::serialize(frame_writer, v);
            if constexpr (std::is_same<T, long double>::value) normalise_long_double_tail(frame, 0, "archive");
            if (w.sstr.size() < before || frame.size() != w.sstr.size() - before || memcmp(frame.data(), w.sstr.data() + before, frame.size()) != 0)
                kit::violate("C09/writers-disagree@archive", "a writer whose string was cleared before the message wrote %zu bytes, a writer appending to a string of %zu bytes wrote %zu bytes for the same value",
                             frame.size(), before, w.sstr.size() - before);
            if ((before & 3) == 3)
            {
                // a frame that repeats part of itself (an echo of the header, a trailer that copies the first bytes): the bytes to
                // append lie inside the output string, which may have to grow for them
                std::string echo;
                W ew(echo);
                igris::serialize(ew, v);
                if (!echo.empty() && echo.size() < 30000)
                {
                    std::string expect = echo;
                    uint16_t n = (uint16_t)echo.size();
                    expect.append((const char *)&n, 2);
                    expect.append(std::string(echo));
                    // (room for the 16-bit count is reserved first: the view must still be valid when the bytes themselves are appended)
                    echo.shrink_to_fit();
                    echo.reserve(echo.size() + 2);
                    ew & igris::buffer(echo.data(), echo.size());
                    if (echo != expect) kit::violate("C09/self-echo@archive", "appending a length-prefixed copy of the %u bytes written so far (source inside the output string) gave other bytes than the layout rule", (unsigned)n);
                    size_t k = 1 + before % std::min<size_t>(echo.size(), 40);
                    expect.append(echo.substr(0, k));
                    echo.shrink_to_fit();
                    ew & igris::archive::data<char>(echo.data(), k);
                    if (echo != expect) kit::violate("C09/self-echo@archive", "appending a raw copy of the first %zu bytes of the output string to itself gave other bytes than the layout rule", k);
                    kit::probe("frame_echoes_itself");
                }
            }
        }
        template <class T> static void get(R &r, T &v) { igris::deserialize(r, v); }
    };

    // the same API through the other writer: binary_buffer_writer into an exact-size heap block (size = what the layout
    // rule predicts, so a writer that emits more is an ASan report) and the convenience functions
    // igris::serialize(obj) / igris::deserialize<T>(string)
    struct P1b : P1
    {
        static const char *apiname() { return "archive-bufwriter"; }
        struct W
        {
            std::string acc;
        };
        struct WHolder
        {
            W wr;
            W &w() { return wr; }
            const std::string &bytes() { return wr.acc; }
        };
        template <class T> static void put(W &w, const T &v)
        {
            std::string ref;
            Ref<T>::enc(v, ref);
            std::unique_ptr<char[]> buf(new char[ref.size() ? ref.size() : 1]);
            igris::archive::binary_buffer_writer bw(buf.get(), ref.size());
            igris::serialize(bw, v);
            size_t n = (size_t)(bw.ptr - buf.get());
            {
                // a second writer constructed over the bytes already written (as for back-patching a header) leaves them alone
                std::string before(buf.get(), n);
                igris::archive::binary_buffer_writer second(buf.get(), ref.size());
                if (memcmp(before.data(), buf.get(), n) != 0) kit::violate("C09/writers-disagree@archive", "constructing a second binary_buffer_writer over a buffer changed the %zu bytes the first writer had produced", n);
                (void)second;
            }
            std::string conv = igris::serialize(v); // convenience function must agree with the archive
            {
                // two one-shot encodings alive at the same time (as in serialize(a) + serialize(b)): the first must not change
                // when the second is made
                const std::string &e1 = igris::serialize(v);
                const std::string &e2 = igris::serialize(T());
                std::string a1 = e1, a2 = conv;
                if constexpr (std::is_same<T, long double>::value)
                { // the padding bytes of a long double image are indeterminate and may differ between two encodings
                    normalise_long_double_tail(a1, 0, "archive-bufwriter");
                    normalise_long_double_tail(a2, 0, "archive-bufwriter");
                }
                if (a1 != a2) kit::violate("C09/writers-disagree@archive", "the result of igris::serialize(obj) changed when a second value of the same type was serialized while it was still in use");
                (void)e2;
            }
            if constexpr (std::is_same<T, long double>::value)
            {
                std::string viabuf(buf.get(), n);
                normalise_long_double_tail(viabuf, 0, "archive-bufwriter");
                normalise_long_double_tail(conv, 0, "archive-bufwriter");
                memcpy(buf.get(), viabuf.data(), n);
            }
            if (conv.size() != n || memcmp(conv.data(), buf.get(), n) != 0)
                kit::violate("C09/writers-disagree@archive", "binary_buffer_writer wrote %zu bytes, igris::serialize(obj) returned %zu bytes for the same value", n, conv.size());
            w.acc.append(buf.get(), n);
        }
        template <class T> static void get(R &r, T &v)
        {
            // decode through the convenience function from exactly the remaining bytes, then advance the stream reader
            const char *p = r.ptr;
            size_t left = (size_t)((const char *)r.end() - p);
            T viaconv = igris::deserialize<T>(igris::buffer(p, left));
            igris::deserialize(r, v);
            if (!Ref<T>::eq(v, viaconv)) kit::violate("C09/readers-disagree@archive", "igris::deserialize<T>(buffer) and the archive reader decode different values from the same bytes");
            T viastr = igris::deserialize<T>(std::string(p, left));
            igris::archive::binary_buffer_reader again(igris::buffer(p, left)); // the reader's other constructor
            T v2 = T();
            igris::deserialize(again, v2);
            if (!Ref<T>::eq(v, viastr) || !Ref<T>::eq(v, v2) || again.ptr != r.ptr)
                kit::violate("C09/readers-disagree@archive", "igris::deserialize<T>(string) / a reader built from an igris::buffer decode differently from the archive reader");
            {
                // decoding into a destination object that is in use already (it holds this very value: an update applied to the
                // current state) consumes the same bytes; what a container destination then contains is not judged
                igris::archive::binary_buffer_reader third(igris::buffer(p, left));
                T reused = v;
                igris::deserialize(third, reused);
                if (third.ptr != r.ptr)
                    kit::violate("C09/cursor@archive", "decoding into a destination that already holds the value consumed %td bytes, decoding into a fresh one %td", third.ptr - p, r.ptr - p);
            }
        }
    };

    template <class P> Api *make_api1_with()
    {
        auto *a = new ApiImpl<P>();
        auto &t = a->types;
#define T1(type, depth, nt) t.push_back(make_entry<P, type>(#type, depth, nt))
        T1(int8_t, 0, false);
        T1(int16_t, 0, false);
        T1(int32_t, 0, false);
        T1(int64_t, 0, false);
        T1(uint8_t, 0, false);
        T1(uint16_t, 0, false);
        T1(uint32_t, 0, false);
        T1(uint64_t, 0, false);
        T1(float, 0, false);
        T1(double, 0, false);
        T1(std::string, 1, false);
        T1(std::vector<int32_t>, 1, false);
        T1(std::vector<uint8_t>, 1, false);
        T1(std::vector<double>, 1, false);
        T1(std::vector<std::string>, 2, true);
        T1(std::vector<std::vector<int16_t>>, 2, true);
        typedef std::pair<int32_t, std::string> PairIS;
        typedef std::pair<int8_t, int32_t> PairCI; // has padding as a raw object
        typedef std::pair<std::string, std::vector<int32_t>> PairSV;
        T1(PairIS, 1, false);
        T1(PairCI, 0, false);
        T1(PairSV, 2, false);
        T1(std::vector<PairIS>, 2, true);
        T1(std::vector<PairCI>, 1, true);
        typedef std::tuple<int8_t, double, std::string> Tup3;
        typedef std::tuple<uint16_t> Tup1;
        T1(Tup3, 1, false);
        T1(Tup1, 0, false);
        typedef std::map<int32_t, std::string> MapIS;
        typedef std::map<std::string, std::vector<uint16_t>> MapSV;
        typedef std::map<std::string, std::vector<PairIS>> MapSVP; // depth 3
        typedef std::vector<std::vector<std::vector<uint8_t>>> Vec3;
        T1(MapIS, 2, true);
        T1(MapSV, 3, true);
        T1(MapSVP, 3, true);
        T1(Vec3, 3, true);
        T1(S1, 1, true);
        T1(std::vector<S1>, 2, true);
        T1(S2, 3, true);
        T1(B1, 1, false);
        T1(B2, 1, false);
        T1(std::vector<B1>, 2, true);
        T1(S4, 1, true);
        // (new types are appended: the golden file addresses types by index)
        T1(S5, 1, false);
        T1(std::vector<S5>, 2, true);
        T1(B3, 1, false);
        T1(std::vector<B3>, 2, true);
        T1(B4, 1, false);
        T1(long double, 0, false);
        T1(M1, 1, false);
        T1(std::vector<M1>, 2, true);
        T1(S6, 0, false);
        T1(std::vector<S6>, 1, true);
        T1(S7, 0, false);
        T1(std::vector<S7>, 1, true);
        T1(std::vector<Marker>, 1, true);
        T1(S8, 0, false);
        T1(std::vector<S8>, 1, true);
        T1(B5, 1, false);
        T1(std::vector<B5>, 2, true);
        T1(V1, 1, false);
        T1(std::vector<V1>, 2, true);
#undef T1
        return a;
    }
    Api *make_api1() { return make_api1_with<P1>(); }
    Api *make_api1b() { return make_api1_with<P1b>(); }
}
