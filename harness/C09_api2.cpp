// C09, API 2: igris/serialize/serializer.h, serialize_protocol/storage/archive/scheme/tags/checks.h
// (serializer / deserializer over string_storage and the bounded deserialize_buffer_storage).
#include <igris/serialize/serialize_archive.h>
#include "C09_impl.h"

namespace c09
{
    // user types exposing serialize_reflect (const overload for writing, non-const for reading)
    struct R1
    {
        int32_t a = 0;
        double b = 0;
        uint8_t c = 0;
        bool d = false;
        template <class A> void serialize_reflect(A &arch) const { arch & a; arch & b; arch & c; arch & d; }
        template <class A> void serialize_reflect(A &arch) { arch & a; arch & b; arch & c; arch & d; }
    };
    struct R2
    {
        R1 r;
        std::vector<int32_t> v;
        std::vector<R1> rs;
        std::vector<std::vector<uint16_t>> vv;
        int64_t tail = 0;
        template <class A> void serialize_reflect(A &arch) const { arch & r; arch & v; arch & rs; arch & vv; arch & tail; }
        template <class A> void serialize_reflect(A &arch) { arch & r; arch & v; arch & rs; arch & vv; arch & tail; }
    };
    template <> struct Ref<R1>
    {
        static R1 gen(kit::Rng &r, GenCfg &c) { R1 x; x.a = Ref<int32_t>::gen(r, c); x.b = Ref<double>::gen(r, c); x.c = Ref<uint8_t>::gen(r, c); x.d = Ref<bool>::gen(r, c); return x; }
        static void enc(const R1 &v, std::string &o) { Ref<int32_t>::enc(v.a, o); Ref<double>::enc(v.b, o); Ref<uint8_t>::enc(v.c, o); Ref<bool>::enc(v.d, o); }
        static bool eq(const R1 &a, const R1 &b) { return a.a == b.a && Ref<double>::eq(a.b, b.b) && a.c == b.c && a.d == b.d; }
        static bool is_container() { return false; }
    };
    template <> struct Ref<R2>
    {
        static R2 gen(kit::Rng &r, GenCfg &c)
        {
            R2 x;
            x.r = Ref<R1>::gen(r, c);
            x.v = Ref<std::vector<int32_t>>::gen(r, c);
            x.rs = Ref<std::vector<R1>>::gen(r, c);
            x.vv = Ref<std::vector<std::vector<uint16_t>>>::gen(r, c);
            x.tail = Ref<int64_t>::gen(r, c);
            return x;
        }
        static void enc(const R2 &v, std::string &o)
        {
            Ref<R1>::enc(v.r, o);
            Ref<std::vector<int32_t>>::enc(v.v, o);
            Ref<std::vector<R1>>::enc(v.rs, o);
            Ref<std::vector<std::vector<uint16_t>>>::enc(v.vv, o);
            Ref<int64_t>::enc(v.tail, o);
        }
        static bool eq(const R2 &a, const R2 &b)
        {
            return Ref<R1>::eq(a.r, b.r) && Ref<std::vector<int32_t>>::eq(a.v, b.v) && Ref<std::vector<R1>>::eq(a.rs, b.rs) &&
                   Ref<std::vector<std::vector<uint16_t>>>::eq(a.vv, b.vv) && a.tail == b.tail;
        }
        static bool is_container() { return true; }
    };

    struct P2
    {
        static const char *apiname() { return "serializer"; }
        static const bool bounded = true;
        typedef igris::serializer<igris::string_storage> W;
        typedef igris::deserializer<igris::deserialize_buffer_storage> R;
        struct WHolder
        {
            igris::string_storage st;
            W wr;
            WHolder() : wr(st) {}
            W &w() { return wr; }
            const std::string &bytes() { return st.storage(); }
        };
        struct RHolder
        {
            size_t n;
            igris::deserialize_buffer_storage st;
            R rd;
            RHolder(const char *p, size_t n) : n(n), st(igris::buffer(p, n)), rd(st) {}
            R &r() { return rd; }
            size_t pos() { return n - (size_t)st.avail(); }
        };
        template <class T> static void put(W &w, const T &v) { w.serialize(v); }
        template <class T> static void get(R &r, T &v) { v = r.template deserialize<T>(); }
    };

    // the same API through its free functions: igris::serialize(obj, storage) appends to a caller-owned storage,
    // igris::deserialize<T>(storage) reads the next value from a caller-owned reader storage (its cursor must advance),
    // igris::serialize(obj) / igris::deserialize<T>(string) are the one-shot forms
    struct P2b : P2
    {
        static const char *apiname() { return "serializer-free-functions"; }
        struct W
        {
            igris::string_storage st;
        };
        struct WHolder
        {
            W wr;
            W &w() { return wr; }
            const std::string &bytes() { return wr.st.storage(); }
        };
        struct R
        {
            size_t n;
            const char *base;
            igris::deserialize_buffer_storage st;
            R(const char *p, size_t n) : n(n), base(p), st(igris::buffer(p, n)) {}
        };
        struct RHolder
        {
            R rd;
            RHolder(const char *p, size_t n) : rd(p, n) {}
            R &r() { return rd; }
            size_t pos() { return rd.n - (size_t)rd.st.avail(); }
        };
        template <class T> static void put(W &w, const T &v)
        {
            size_t before = w.st.storage().size();
            // the owner keeps a copy of what has been written so far (a snapshot for a retransmission) and looks at the storage
            // twice in a row: the accessor is a query
            std::string so_far = w.st.storage();
            if (so_far.size() != before || w.st.storage().size() != before) kit::violate("C09/writers-disagree@serializer", "copying storage() of a string_storage changed it: %zu bytes were written, the copy has %zu, the storage now %zu", before, so_far.size(), w.st.storage().size());
            igris::serialize(v, w.st);
            if (w.st.storage().compare(0, before, so_far) != 0) kit::violate("C09/writers-disagree@serializer", "the %zu bytes written before this value are no longer at the front of the storage", before);
            std::string one = igris::serialize(v);
            const std::string &all = w.st.storage();
            if (all.size() - before != one.size() || memcmp(all.data() + before, one.data(), one.size()) != 0)
                kit::violate("C09/writers-disagree@serializer", "igris::serialize(obj, storage) appended %zu bytes, igris::serialize(obj) returned %zu bytes for the same value", all.size() - before, one.size());
            // a storage that already holds bytes (a header written by the caller) is appended to, not overwritten
            igris::string_storage pre(std::string("\x01\x02\x03", 3));
            igris::serialize(v, pre);
            pre.dumps(std::string("\xFE", 1));
            const std::string &ps = pre.storage();
            if (ps.size() != 4 + one.size() || memcmp(ps.data(), "\x01\x02\x03", 3) != 0 || memcmp(ps.data() + 3, one.data(), one.size()) != 0 || (unsigned char)ps.back() != 0xFE)
                kit::violate("C09/writers-disagree@serializer", "serializing into a storage that already held 3 bytes gives %zu bytes, expected 3 + %zu + 1 with the prefix kept", ps.size(), one.size());
        }
        template <class T> static void get(R &r, T &v)
        {
            // the one-shot form from a string holding exactly the remaining bytes must agree with the storage form
            size_t left = (size_t)r.st.avail();
            std::string rest(r.base + (r.n - left), left);
            {
                // the reader storage's raw accessor: loads(k) hands out k bytes, of which only the supplied ones come from the input
                igris::deserialize_buffer_storage tmp(igris::buffer(r.base + (r.n - left), left));
                size_t k = (left * 7 + 3) % (left + 4);
                std::string raw = tmp.loads(k);
                size_t have = std::min(k, left);
                if (raw.size() != k || memcmp(raw.data(), rest.data(), have) != 0 || (size_t)tmp.avail() != left - have)
                    kit::violate("C09/storage-loads@serializer", "loads(%zu) on %zu remaining bytes returned %zu bytes / left the storage with %d", k, left, raw.size(), tmp.avail());
                for (size_t i = have; i < k; i++)
                    if (raw[i] != 0) kit::violate("C09/storage-loads@serializer", "loads(%zu) on %zu remaining bytes: byte %zu was never supplied but is not zero", k, left, i);
            }
            v = igris::deserialize<T>(r.st);
            T one = igris::deserialize<T>(rest);
            {
                // the bounded reader built from a plain char array holding exactly the remaining bytes (a receive frame)
                auto via_array = [&](auto tag) {
                    char frame[decltype(tag)::value];
                    memcpy(frame, rest.data(), sizeof frame);
                    igris::deserialize_buffer_storage fs(frame);
                    if ((size_t)fs.avail() != sizeof frame) kit::violate("C09/readers-disagree@serializer", "a reader storage built from a char[%zu] offers %d bytes", sizeof frame, fs.avail());
                    T w = igris::deserialize<T>(fs);
                    if (!Ref<T>::eq(v, w)) kit::violate("C09/readers-disagree@serializer", "decoding from a char[%zu] frame gives another value than decoding the same bytes from a buffer", sizeof frame);
                };
                switch (left)
                {
                case 1: via_array(std::integral_constant<size_t, 1>()); break;
                case 2: via_array(std::integral_constant<size_t, 2>()); break;
                case 4: via_array(std::integral_constant<size_t, 4>()); break;
                case 6: via_array(std::integral_constant<size_t, 6>()); break;
                case 8: via_array(std::integral_constant<size_t, 8>()); break;
                case 12: via_array(std::integral_constant<size_t, 12>()); break;
                case 16: via_array(std::integral_constant<size_t, 16>()); break;
                default: break;
                }
            }
            if (!Ref<T>::eq(v, one)) kit::violate("C09/readers-disagree@serializer", "igris::deserialize<T>(string) and igris::deserialize<T>(storage) decode different values from the same bytes");
            {
                // the reader storage built from a message that its owner hands over with std::move (and keeps alive): the storage is
                // a view of those bytes, also for a message short enough to live inside the string object
                std::string kept(rest);
                igris::deserialize_buffer_storage ms(std::move(kept));
                T w = igris::deserialize<T>(ms);
                if (!Ref<T>::eq(v, w) || (size_t)ms.avail() != (size_t)r.st.avail())
                    kit::violate("C09/readers-disagree@serializer", "a reader storage built from std::move(message) (%zu bytes) decodes another value, or consumes another number of bytes, than one built from a buffer over the same bytes", left);
                if (left < 16) kit::probe("reader_over_a_moved_short_message");
            }
        }
    };

    template <class P> Api *make_api2_with();
    Api *make_api2() { return make_api2_with<P2>(); }
    Api *make_api2b() { return make_api2_with<P2b>(); }
    template <class P> Api *make_api2_with()
    {
        auto *a = new ApiImpl<P>();
        auto &t = a->types;
#define T2(type, depth, nt) t.push_back(make_entry<P, type>(#type, depth, nt))
        T2(int8_t, 0, false);
        T2(int16_t, 0, false);
        T2(int32_t, 0, false);
        T2(int64_t, 0, false);
        T2(uint8_t, 0, false);
        T2(uint16_t, 0, false);
        T2(uint32_t, 0, false);
        T2(uint64_t, 0, false);
        T2(bool, 0, false);
        T2(char, 0, false);
        T2(float, 0, false);
        T2(double, 0, false);
        T2(std::vector<int32_t>, 1, false);
        T2(std::vector<uint8_t>, 1, false);
        T2(std::vector<double>, 1, false);
        T2(std::vector<std::vector<uint16_t>>, 2, true);
        typedef std::vector<std::vector<std::vector<int8_t>>> Vec3;
        T2(Vec3, 3, true);
        T2(R1, 0, false);
        T2(std::vector<R1>, 1, true);
        T2(R2, 3, true);
        T2(std::vector<R2>, 3, true);
#undef T2
        return a;
    }
}
