/* C01: item types shared by the C++ harness and the C translation unit (the C list headers are compiled in both languages) */
#ifndef C01_CITEM_H
#define C01_CITEM_H
#include <igris/datastruct/dlist.h>
#include <igris/datastruct/hlist.h>
#include <igris/datastruct/slist.h>
#include <igris/util/member.h>
struct CItem
{
    int id;
    int key;
    struct dlist_head lnk;
};
struct SItem
{
    int id;
    struct slist_head sl;
    struct hlist_node hn;
};
#ifdef __cplusplus
extern "C"
{
#endif
    /* the same macros and inline functions, expanded by the C compiler */
    int c01_c_entries(struct dlist_head *h, int *out, int max);
    int c01_c_entries_rev(struct dlist_head *h, int *out, int max);
    struct CItem *c01_c_first(struct dlist_head *h);
    struct CItem *c01_c_last(struct dlist_head *h);
    struct CItem *c01_c_next(struct CItem *it);
    struct CItem *c01_c_prev(struct CItem *it);
    int c01_c_size(struct dlist_head *h);
    int c01_c_in(struct dlist_head *node, struct dlist_head *h);
    int c01_c_check(struct dlist_head *h, int bound);
    int c01_c_is_correct(struct dlist_head *h);
    void c01_c_add_next(struct dlist_head *node, struct dlist_head *pos);
    void c01_c_add_prev(struct dlist_head *node, struct dlist_head *pos);
    void c01_c_del_init(struct dlist_head *node);
    void c01_c_move(struct dlist_head *node, struct dlist_head *head);
    void c01_c_move_tail(struct dlist_head *node, struct dlist_head *head);
    void c01_c_move_sorted(struct CItem *it, struct dlist_head *head);
    int c01_c_slist_entries(struct slist_head *h, int *out, int max);
    struct SItem *c01_c_slist_pop_first_entry(struct slist_head *h);
    int c01_c_slist_in(struct slist_head *h, struct slist_head *node);
    int c01_c_hlist_entries(struct hlist_head *h, int *out, int max);
    /* C01_idioms.inc expanded by the C compiler */
    int c01_c_walk_dl_entry(struct dlist_head *h, int cond, int stop, int skip, int *out, int max, int *else_ran);
    int c01_c_walk_dl_entry_rev(struct dlist_head *h, int cond, int stop, int skip, int *out, int max, int *else_ran);
    int c01_c_walk_dl_entry_safe(struct dlist_head *h, int cond, int stop, int skip, int *out, int max, int *else_ran);
    int c01_c_walk_dl_raw(struct dlist_head *h, int cond, int stop, int skip, int *out, int max, int *else_ran);
    int c01_c_walk_dl_raw_safe(struct dlist_head *h, int cond, int stop, int skip, int *out, int max, int *else_ran);
    int c01_c_remove_first_dl(struct dlist_head *h, int id);
    int c01_c_walk_sl_entry(struct slist_head *h, int cond, int stop, int skip, int *out, int max, int *else_ran);
    int c01_c_walk_hl_entry(struct hlist_head *h, int cond, int stop, int skip, int *out, int max, int *else_ran);
    int c01_c_filter_hl(struct hlist_head *h, int parity, int *deleted, int max, int *ndeleted);
    int c01_c_safe_walk_edit(struct dlist_head *h, int at, int mode, struct dlist_head *extra, int *out, int max);
#ifdef __cplusplus
}
#endif
#endif
