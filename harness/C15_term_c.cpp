// C15: the C terminal (igris/shell/vterm.c + readline.h + datastruct/sline.h) behind the Term interface.
// Line and history buffers are exact-size heap blocks (ASan).
#include "C15_iface.h"
#include <igris/shell/vterm.h>
#include <cstring>
#include <memory>

namespace
{
    struct TermC : Term
    {
        vterm_automate vt;
        std::unique_ptr<char[]> line, hist;
        TermSink *sink = nullptr;
        bool first_start = true;
        static void w(void *p, const char *d, unsigned n) { ((TermC *)p)->sink->on_write(d, n); }
        static void e(void *p, const char *d, unsigned n) { ((TermC *)p)->sink->on_execute(d, n); }
        static void s(void *p, int sig) { ((TermC *)p)->sink->on_signal(sig); }
        void set_echo(bool on) override { vt.echo = on ? 1 : 0; }
        void start(unsigned cap, unsigned h, TermSink *sk, const char *prompt, bool echo, unsigned flags = 0) override
        {
            sink = sk;
            line.reset(new char[cap]);
            hist.reset(new char[(size_t)cap * h]);
            static const unsigned char fills[4] = {0x00, 0xA5, 0xFF, 0x01};
            if (first_start) memset((void *)&vt, fills[(flags >> 1) & 3], sizeof vt); // dirty storage (a re-init keeps what the last session left)
            first_start = false;
            vterm_automate_init(&vt, line.get(), cap, hist.get(), h);
            vterm_set_write_callback(&vt, w, this);
            vterm_set_execute_callback(&vt, e, this);
            if (!(flags & 1)) vterm_set_signal_callback(&vt, s, this);
            vt.prefix_string = prompt;
            vt.echo = echo ? 1 : 0;
            vterm_automate_init_step(&vt);
        }
        void feed(int c) override { vterm_automate_newdata(&vt, (int16_t)c); }
        long len() override { return vt.rl.line.len; }
        long cursor() override { return vt.rl.line.cursor; }
        const char *name() override { return "vterm.c"; }
    };
}
Term *make_term_c() { return new TermC(); }
