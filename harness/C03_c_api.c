/* C03: igris/datastruct/ring.h compiled as C */
#include "C03_c_api.h"
int c03_c_putc(struct ring_head *r, char *buf, char c) { return ring_putc(r, buf, c); }
int c03_c_getc(struct ring_head *r, char *buf) { return ring_getc(r, buf); }
int c03_c_write(struct ring_head *r, char *buf, const char *data, unsigned n) { return ring_write(r, buf, data, n); }
int c03_c_read(struct ring_head *r, char *buf, char *data, unsigned n) { return ring_read(r, buf, data, n); }
unsigned c03_c_avail(struct ring_head *r) { return ring_avail(r); }
unsigned c03_c_room(struct ring_head *r) { return ring_room(r); }
int c03_c_full(struct ring_head *r) { return ring_full(r); }
int c03_c_empty(struct ring_head *r) { return ring_empty(r); }
void c03_c_move_head(struct ring_head *r, unsigned n) { ring_move_head(r, n); }
void c03_c_move_tail(struct ring_head *r, unsigned n) { ring_move_tail(r, n); }
int c03_c_fixup_index(struct ring_head *r, int index) { return ring_fixup_index(r, index); }
int c03_c_walk(struct ring_head *r, const char *buf, unsigned char *out, int max)
{
    int n = 0;
    ring_for_each(idx, r)
    {
        if (n >= max) return -1;
        out[n++] = (unsigned char)buf[idx];
    }
    return n;
}
int c03_c_walk_stmt(struct ring_head *r, const char *buf, int cond, int stop_at, int skip_at, unsigned char *out, int max, int *else_ran)
{
    return c03_walk_stmt_inline(r, buf, cond, stop_at, skip_at, out, max, else_ran);
}
