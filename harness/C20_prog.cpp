// C20 program under test: the only harness TU that includes igris headers. Compiled with -fsanitize=thread
// instrumentation (like the igris TUs) so that every access made here - including the std::deque inside
// safe_queue - is seen by the simulator's happens-before detector. Uses no std containers the harness uses.
#include "C20_prog.h"

#include <igris/container/dlist.h>
#include <igris/event/safe_queue.h>
#include <igris/osinter/wait.h>
#include <igris/sync/syslock.h>
#include <mutex>

struct QItem
{
    int prod;
    int seq;
};

extern "C"
{
    // ------------------------------------------------------------------ P-lock
    // one round: nested acquisition to `depth`, a plain shared counter increment at every level, optionally a
    // save/restore window in the middle, then unwinding; the harness' owner record is updated through h_* hooks
    void prog_lock_round(int depth, int use_save, long *counter)
    {
        if (use_save == 0 && depth == 2)
        {
            // the C++ wrappers: a syslock_guard object around a std::lock_guard<igris::syslock>
            igris::syslock_guard g;
            h_locked(1);
            *counter = *counter + 1;
            {
                igris::syslock sl;
                std::lock_guard<igris::syslock> lg(sl);
                h_locked(2);
                *counter = *counter + 1;
                *counter = *counter + 1;
                h_unlocking(2);
            }
            *counter = *counter + 1;
            h_unlocking(1);
            return;
        }
        if (use_save == 0 && depth == 1)
        {
            static thread_local int calls = 0;
            if (++calls & 1)
            {
                // one long-lived wrapper object, locked twice by nested std::lock_guards (re-entry through the same object)
                static igris::syslock shared_wrapper;
                std::lock_guard<igris::syslock> outer(shared_wrapper);
                h_locked(1);
                *counter = *counter + 1;
                {
                    std::lock_guard<igris::syslock> inner(shared_wrapper);
                    h_locked(2);
                    *counter = *counter + 1;
                    *counter = *counter + 1;
                    h_unlocking(2);
                }
                *counter = *counter + 1;
                h_unlocking(1);
                return;
            }
        }
        if (use_save == 0 && depth == 3)
        {
            // the C functions and the C++ guard on the same lock, undone out of order: two acquisitions (C, then guard), one
            // release through the C function while the guard is still alive - one level is still held until the guard dies
            system_lock();
            h_locked(1);
            *counter = *counter + 1;
            {
                igris::syslock_guard g;
                h_locked(2);
                *counter = *counter + 1;
                h_unlocking(2);
                system_unlock();
                *counter = *counter + 1; // still inside the critical section
                *counter = *counter + 1;
                h_unlocking(1);
            }
            return;
        }
        for (int d = 1; d <= depth; d++)
        {
            system_lock();
            h_locked(d);
            *counter = *counter + 1;
        }
        if (use_save)
        {
            h_saving();
            struct syslock_save_pair save = system_lock_save();
            h_saved();
            if (use_save == 2)
            {
                // a callee that takes the system lock while the caller has it saved away
                system_lock();
                h_locked(1);
                *counter = *counter + 1;
                *counter = *counter + 1;
                h_unlocking(1);
                system_unlock();
            }
            system_lock_restore(save);
            h_restored(syslock_counter());
            *counter = *counter + 1;
        }
        for (int d = depth; d >= 1; d--)
        {
            *counter = *counter + 1;
            h_unlocking(d);
            system_unlock();
        }
    }

    // ------------------------------------------------------------------ P-wait
    void *prog_head_new() { return new igris::dlist_base(); }
    void prog_head_delete(void *h) { delete (igris::dlist_base *)h; }
    unsigned prog_head_size_locked(void *h) { return (unsigned)((igris::dlist_base *)h)->size(); }

    // what a wake carries is a full machine word (a pointer to a message record, a wide token): two thirds of the small numbers
    // the model uses travel as values that need more than 32 bits and come back through unwiden()
    static intptr_t widen(long u) { return u % 3 == 0 || u < 0 || u >= (1 << 24) ? (intptr_t)u : (intptr_t)(((uint64_t)u << 24) + 0x123456u); }
    static long unwiden(intptr_t f) { return f > 0 && (f & 0xFFFFFF) == 0x123456 && (f >> 24) % 3 != 0 ? (long)(f >> 24) : (long)f; }
    long prog_wait(void *head, int prio)
    {
        void *fut = 0;
        h_wait_begin(prio);
        wait_current_schedee((igris::dlist_base *)head, prio, &fut);
        h_wait_end(unwiden((intptr_t)fut));
        return unwiden((intptr_t)fut);
    }
    void prog_wake(void *head, int all, int wrapped, long u)
    {
        igris::dlist_base *h = (igris::dlist_base *)head;
        if (wrapped)
        {
            system_lock();
            h_wake_begin(all, 1, u);
            if (all) unwait_all(h, widen(u));
            else unwait_one(h, widen(u));
            h_wake_end();
            system_unlock();
        }
        else
        {
            h_wake_begin(all, 0, u);
            if (all) unwait_all(h, widen(u));
            else unwait_one(h, widen(u));
            h_wake_end();
        }
    }

    // a waiter that is not a thread: an event-driven task parks a `waiter` with a handler (waiter_delegate_init) in the queue
    // under the system lock and goes on; the wake runs the handler in the waker's thread. kind 1 passes the baton on: its
    // handler wakes the next waiter of the same queue (a call back into the queue from inside unwait_one / unwait_all).
    // Parking a delegate that is still parked refreshes its place in the line (move_back / move_front of a linked node).
    struct Dlg
    {
        waiter w;
        int id, kind;
        int handler; // which of the two handlers the owner set last
        int reparks_left = 0; // kind 2: the handler parks the waiter again, at the front of the same queue, once per park
        igris::dlist_base *head;
    };
    static void dlg_common(Dlg *d, int which)
    {
        h_delegate_handler(d->id, which, d->handler);
        h_delegate_woken(d->id, unwiden((intptr_t)d->w.future));
        if (d->kind == 1) unwait_one(d->head, widen(500000 + d->id));
        if (d->kind == 2 && d->reparks_left > 0)
        {
            d->reparks_left--;
            d->head->move_front(d->w.lnk); // (inside the wake: the system lock is held by the waker)
        }
    }
    static void dlg_handler(void *arg) { dlg_common((Dlg *)arg, 0); }
    static void dlg_handler_b(void *arg) { dlg_common((Dlg *)arg, 1); }
    void *prog_delegate_new(int id, int kind)
    {
        Dlg *d = new Dlg();
        d->id = id;
        d->kind = kind;
        d->handler = 0;
        d->head = nullptr;
        waiter_delegate_init(&d->w, dlg_handler, d);
        return d;
    }
    void prog_delegate_delete(void *d) { delete (Dlg *)d; }
    // how: bit 0 = prioritised; bit 1 = the owner hands the wake-up to its other handler once the waiter stands in the line
    // (waiter_delegate_init on a parked waiter, under the system lock: handler and object change, the place in the line stays)
    // bit 2: ... and then dies while it stands in the line (its owner is torn down): the waiter object is destroyed under the
    // system lock, its destructor takes it out of the queue; the owner continues with a fresh waiter (returned)
    void *prog_delegate_park(void *dv, void *head, int how)
    {
        Dlg *d = (Dlg *)dv;
        igris::dlist_base *h = (igris::dlist_base *)head;
        system_lock();
        h_delegate_parking(d->id, how & 1, head);
        d->head = h;
        d->reparks_left = d->kind == 2 ? 1 : 0;
        if (how & 1) h->move_front(d->w.lnk);
        else h->move_back(d->w.lnk);
        if (how & 2)
        {
            d->handler = !d->handler;
            waiter_delegate_init(&d->w, d->handler ? dlg_handler_b : dlg_handler, d);
        }
        if (how & 4)
        {
            int id = d->id, kind = d->kind;
            h_delegate_dying(id);
            delete d;
            system_unlock();
            return prog_delegate_new(id, kind);
        }
        system_unlock();
        return d;
    }

    // ------------------------------------------------------------------ P-queue
    void *prog_queue_new() { return new igris::safe_queue<QItem>(); }
    // the initializer-list constructor: the queue starts with n items of the pseudo producer `prod`
    void *prog_queue_new_preloaded(int prod, int n)
    {
        switch (n)
        {
        case 1: return new igris::safe_queue<QItem>({QItem{prod, 0}});
        case 2: return new igris::safe_queue<QItem>({QItem{prod, 0}, QItem{prod, 1}});
        case 3: return new igris::safe_queue<QItem>({QItem{prod, 0}, QItem{prod, 1}, QItem{prod, 2}});
        case 4: return new igris::safe_queue<QItem>({QItem{prod, 0}, QItem{prod, 1}, QItem{prod, 2}, QItem{prod, 3}});
        default: return new igris::safe_queue<QItem>(std::initializer_list<QItem>{});
        }
    }
    void prog_queue_delete(void *q) { delete (igris::safe_queue<QItem> *)q; }
    void prog_queue_push(void *q, int prod, int seq)
    {
        QItem it{prod, seq};
        h_push_begin(prod, seq);
        // the item is handed over as a named object, as a temporary, or moved from: all three are one push
        auto *sq = (igris::safe_queue<QItem> *)q;
        switch ((prod + seq) % 3)
        {
        case 0: sq->push(it); break;
        case 1: sq->push(QItem{prod, seq}); break;
        default: sq->push(std::move(it)); break;
        }
        h_push_end(prod, seq);
    }
    void prog_queue_pop(void *q)
    {
        h_pop_begin();
        QItem it = ((igris::safe_queue<QItem> *)q)->pop();
        h_pop_end(it.prod, it.seq);
    }
    void prog_queue_size(void *q)
    {
        h_size_begin();
        unsigned long sz = ((igris::safe_queue<QItem> *)q)->size();
        h_size_end(sz);
    }
    unsigned long prog_queue_size_plain(void *q) { return ((igris::safe_queue<QItem> *)q)->size(); }
}
