/* C03: the C ring header expanded by the C compiler; the C++ harness alternates between its own expansion and this one */
#ifndef C03_C_API_H
#define C03_C_API_H
#include <igris/datastruct/ring.h>
#ifdef __cplusplus
extern "C"
{
#endif
    int c03_c_putc(struct ring_head *r, char *buf, char c);
    int c03_c_getc(struct ring_head *r, char *buf);
    int c03_c_write(struct ring_head *r, char *buf, const char *data, unsigned n);
    int c03_c_read(struct ring_head *r, char *buf, char *data, unsigned n);
    unsigned c03_c_avail(struct ring_head *r);
    unsigned c03_c_room(struct ring_head *r);
    int c03_c_full(struct ring_head *r);
    int c03_c_empty(struct ring_head *r);
    void c03_c_move_head(struct ring_head *r, unsigned n);
    void c03_c_move_tail(struct ring_head *r, unsigned n);
    int c03_c_fixup_index(struct ring_head *r, int index);
    int c03_c_walk(struct ring_head *r, const char *buf, unsigned char *out, int max);
    int c03_c_walk_stmt(struct ring_head *r, const char *buf, int cond, int stop_at, int skip_at, unsigned char *out, int max, int *else_ran);
#ifdef __cplusplus
}
#endif
/* ring_for_each as a statement: the single unbraced statement of an if / else, left with break at the stop_at-th element,
   the skip_at-th element skipped with continue. Defined static inline here so that the C and the C++ translation unit both
   expand the macro (the C unit exports it as c03_c_walk_stmt). */
static inline int c03_walk_stmt_inline(struct ring_head *r, const char *buf, int cond, int stop_at, int skip_at, unsigned char *out, int max, int *else_ran)
{
    int n = 0, k = -1;
    *else_ran = 0;
    if (cond)
        ring_for_each(idx, r)
        {
            k++;
            if (k == skip_at) continue;
            if (n < max) out[n++] = (unsigned char)buf[idx];
            if (k == stop_at) break;
        }
    else
        *else_ran = 1;
    return n;
}
#endif
