// C01 — intrusive lists driven by client tasks that link, move, splice and destroy nodes (engine E6, DESIGN.md 5 C01).
// Real: igris/datastruct/dlist.h, igris/container/dlist.h + dlist.cpp, igris/datastruct/slist.h, igris/container/slist.h,
//       igris/datastruct/hlist.h, igris/util/member.h, memberxx.h.   Stub: the clients; every node is its own heap object
//       (ASan turns "destroyed node still reachable" into a report).
#include "../sim/kit.h"

#include <igris/container/dlist.h>
#include <igris/container/slist.h>
#include <igris/datastruct/dlist.h>
#include "C01_citem.h"
#include <igris/datastruct/hlist.h>
#include <igris/datastruct/slist.h>

#include <algorithm>
#include <memory>

using namespace kit;

namespace
{
#define IDIOM(name) cxx_##name
#define IDIOM_LINKAGE static
#include "C01_idioms.inc"
    // what a walk over `order` visits: nothing when the walk is the if-branch of a false condition; otherwise every id except
    // `skip`, up to and including `stop`
    std::vector<int> expect_walk(const std::vector<int> &order, int cond, int stop, int skip)
    {
        std::vector<int> e;
        if (!cond) return e;
        for (int id : order)
        {
            if (id == skip) continue;
            e.push_back(id);
            if (id == stop) break;
        }
        return e;
    }
    template <class H, class F> void check_walk(const char *what, F fn, H *h, const std::vector<int> &order, int cond, int stop, int skip, const char *when)
    {
        std::vector<int> out(order.size() + 4, -9);
        int else_ran = -1;
        int n = fn(h, cond, stop, skip, out.data(), (int)order.size() + 2, &else_ran);
        out.resize((size_t)std::max(n, 0));
        std::vector<int> want = expect_walk(order, cond, stop, skip);
        if (else_ran != !cond) violate("C01/loop-macro-statement", "%s: %s as the if-branch of 'if (%d) ... else ...': the else branch %s", when, what, cond, else_ran ? "ran" : "did not run");
        if (out != want)
        {
            std::string a = "[", b = "[";
            for (int x : out) a += std::to_string(x) + ",";
            for (int x : want) b += std::to_string(x) + ",";
            violate("C01/loop-macro-statement", "%s: %s with break at id %d and continue at id %d visits %s], expected %s]", when, what, stop, skip, a.c_str(), b.c_str());
        }
    }
    enum St { UNLINKED, LINKED, POISONED, ORPHAN, STALE };
    // STALE: a C node that is in no list but whose links hold anything - never initialised (simulated memory fill), or left
    // behind when its list head was re-initialised wholesale. The header's contract: dlist_init "should be used before all
    // operations with head except dlist_add*", so the add family must work on such a node; everything else needs dlist_init first.

    std::string seq(const std::vector<int> &v)
    {
        std::string s = "[";
        for (size_t i = 0; i < v.size(); i++) s += (i ? "," : "") + std::to_string(v[i]);
        return s + "]";
    }
    void erase_val(std::vector<int> &v, int x) { v.erase(std::remove(v.begin(), v.end(), x), v.end()); }

    // ================================================================ C dlist
    // (struct CItem / struct SItem live in C01_citem.h: the C translation unit C01_c_api.c uses the same types)
    bool c_less(CItem *a, CItem *b) { return a->key < b->key; }

    // ops: [k, item, list, target]
    enum { C_ADD_NEXT, C_ADD_PREV, C_ADD_AFTER, C_ADD_BEFORE, C_DEL, C_DEL_INIT, C_MOVE, C_MOVE_TAIL, C_MOVE_AFTER, C_MOVE_BEFORE,
           C_MOVE_SORTED, C_INSTEAD, C_DEATH, C_TAKEOVER, C_SAFE_SWEEP, C_SAFE_ENTRY_SWEEP, C_HEAD_REINIT, C_NODE_INIT, C_N };
    const char *C_NAME[] = {"add_next", "add_prev", "add_after", "add_before", "del", "del_init", "move", "move_tail", "move_after", "move_before",
                            "move_sorted", "insert_instead", "death", "head_takeover", "for_each_safe+del", "for_each_entry_safe+del", "head_reinit", "node_init"};

    struct CDlistWorld : World
    {
        const char *name() const override { return "c-dlist"; }
        unsigned weight(Tier) const override { return 3; }
        Plan generate(Rng &r, Tier tier) override
        {
            Plan p;
            int ni = (int)r.range(1, tier == THOROUGH ? 12 : 8), nl = (int)r.range(1, 4);
            p.cfg = {ni, nl, (int64_t)r.below(3)};
            int n = (int)r.range(4, tier == THOROUGH ? 120 : 50);
            if (r.chance(1, 40)) n *= 25; // a long history: what only accumulates over hundreds or thousands of operations
            for (int i = 0; i < n; i++)
            {
                int64_t it = (int64_t)r.below(ni), l = (int64_t)r.below(nl);
                int64_t tg = r.chance(1, 5) ? it : (int64_t)r.below(ni); // self-target is deliberately frequent
                p.ops.push_back({(int64_t)r.below(C_N), it, l, tg});
            }
            return p;
        }
        std::string describe(const Plan &p) override
        {
            std::string s = "items=" + std::to_string(mod(p.c(0) - 1, 12) + 1) + " lists=" + std::to_string(mod(p.c(1) - 1, 4) + 1) + ":";
            for (auto &o : p.ops) s += std::string(" ") + C_NAME[mod(arg(o, 0), C_N)] + "(i" + std::to_string(arg(o, 1)) + ",L" + std::to_string(arg(o, 2)) + ",t" + std::to_string(arg(o, 3)) + ")";
            return s;
        }
        Result execute(const Plan &p, Trace &tr) override
        {
            Result res;
            int ni = (int)mod(p.c(0) - 1, 12) + 1, nl = (int)mod(p.c(1) - 1, 4) + 1;
            std::vector<std::unique_ptr<CItem>> it(ni);
            std::vector<std::unique_ptr<dlist_head>> heads(nl);
            std::vector<std::vector<int>> m(nl);
            std::vector<St> st(ni, UNLINKED);
            std::vector<int> where(ni, -1);
            int serial = 0;
            int fillsel = (int)mod(p.c(2), 3);
            auto fresh = [&](int i) {
                it[i].reset(new CItem());
                it[i]->id = i;
                it[i]->key = (i * 7 + serial++ * 3) % 10;
                if ((serial + fillsel) % 3 == 0)
                {
                    // fresh memory is not zeroed and not initialised: seed-chosen fill
                    memset(&it[i]->lnk, fillsel == 0 ? 0x00 : fillsel == 1 ? 0xFF : 0xA5, sizeof it[i]->lnk);
                    st[i] = STALE;
                    probe("uninitialised_node");
                }
                else
                {
                    dlist_init(&it[i]->lnk);
                    st[i] = UNLINKED;
                }
                where[i] = -1;
            };
            for (int i = 0; i < ni; i++) fresh(i);
            for (int l = 0; l < nl; l++) { heads[l].reset(new dlist_head()); dlist_init(heads[l].get()); }
            int moves = 0, deaths_linked = 0, max_nonempty = 0;
            auto idof = [&](dlist_head *n) -> int {
                for (int i = 0; i < ni; i++)
                    if (&it[i]->lnk == n) return i;
                for (int l = 0; l < nl; l++)
                    if (heads[l].get() == n) return -100 - l;
                return -1;
            };
            uint64_t idiom_tick = 0;
            auto check = [&](const char *when) {
                int nonempty = 0;
                for (int l = 0; l < nl; l++)
                {
                    dlist_head *h = heads[l].get();
                    std::vector<int> fwd, bwd, ent;
                    dlist_head *n;
                    int guard = 0;
                    dlist_for_each(n, h)
                    {
                        if (++guard > ni + 2) violate("C01/c-dlist-cycle", "%s: forward traversal of list %d does not come back to the head (model %s)", when, l, seq(m[l]).c_str());
                        fwd.push_back(idof(n));
                    }
                    guard = 0;
                    dlist_for_each_reverse(n, h)
                    {
                        if (++guard > ni + 2) violate("C01/c-dlist-cycle", "%s: backward traversal of list %d does not come back to the head", when, l);
                        bwd.push_back(idof(n));
                    }
                    if (fwd != m[l]) violate("C01/c-dlist-forward", "%s: list %d forward %s, reference %s", when, l, seq(fwd).c_str(), seq(m[l]).c_str());
                    std::reverse(bwd.begin(), bwd.end());
                    if (bwd != m[l]) violate("C01/c-dlist-backward", "%s: list %d backward traversal reversed %s, reference %s", when, l, seq(bwd).c_str(), seq(m[l]).c_str());
                    CItem *pos;
                    dlist_for_each_entry(pos, h, lnk) ent.push_back(pos->id);
                    if (ent != m[l]) violate("C01/c-dlist-entry", "%s: dlist_for_each_entry yields %s, reference %s", when, seq(ent).c_str(), seq(m[l]).c_str());
                    {
                        // the loop macros as statements: under if / else without braces, left with break, entries skipped with continue
                        idiom_tick++;
                        int cond = (int)(idiom_tick % 3 != 0);
                        int stop = m[l].empty() || idiom_tick % 4 == 0 ? -1 : m[l][(size_t)(idiom_tick / 4) % m[l].size()];
                        int skip = m[l].empty() || idiom_tick % 5 < 2 ? -1 : m[l][(size_t)(idiom_tick / 5) % m[l].size()];
                        std::vector<int> rev(m[l].rbegin(), m[l].rend());
                        if (idiom_tick % 2)
                        {
                            check_walk("dlist_for_each_entry", cxx_walk_dl_entry, h, m[l], cond, stop, skip, when);
                            check_walk("dlist_for_each_entry_reverse", cxx_walk_dl_entry_rev, h, rev, cond, stop, skip, when);
                            check_walk("dlist_for_each_entry_safe", cxx_walk_dl_entry_safe, h, m[l], cond, stop, skip, when);
                            check_walk("dlist_for_each", cxx_walk_dl_raw, h, m[l], cond, stop, skip, when);
                            check_walk("dlist_for_each_safe", cxx_walk_dl_raw_safe, h, m[l], cond, stop, skip, when);
                        }
                        else
                        {
                            check_walk("dlist_for_each_entry (compiled as C)", c01_c_walk_dl_entry, h, m[l], cond, stop, skip, when);
                            check_walk("dlist_for_each_entry_reverse (compiled as C)", c01_c_walk_dl_entry_rev, h, rev, cond, stop, skip, when);
                            check_walk("dlist_for_each_entry_safe (compiled as C)", c01_c_walk_dl_entry_safe, h, m[l], cond, stop, skip, when);
                            check_walk("dlist_for_each (compiled as C)", c01_c_walk_dl_raw, h, m[l], cond, stop, skip, when);
                            check_walk("dlist_for_each_safe (compiled as C)", c01_c_walk_dl_raw_safe, h, m[l], cond, stop, skip, when);
                        }
                        if (stop >= 0 || skip >= 0) probe("loop_macro_left_with_break_or_continue");
                    }
                    {
                        // the same traversals and queries as expanded by the C compiler (C01_c_api.c)
                        std::vector<int> ce((size_t)ni + 4), cr((size_t)ni + 4);
                        int n1 = c01_c_entries(h, ce.data(), ni + 2), n2 = c01_c_entries_rev(h, cr.data(), ni + 2);
                        if (n1 < 0 || n2 < 0) violate("C01/c-dlist-cycle", "%s: entry traversal of list %d compiled as C does not end", when, l);
                        ce.resize((size_t)n1);
                        cr.resize((size_t)n2);
                        std::reverse(cr.begin(), cr.end());
                        if (ce != m[l] || cr != m[l]) violate("C01/c-dlist-entry", "%s: compiled as C, dlist_for_each_entry / _reverse yield %s / %s, reference %s", when, seq(ce).c_str(), seq(cr).c_str(), seq(m[l]).c_str());
                        if (c01_c_size(h) != (int)m[l].size() || !c01_c_is_correct(h) || c01_c_check(h, (int)m[l].size() + 1) != (int)m[l].size())
                            violate("C01/c-dlist-size", "%s: compiled as C, dlist_size / dlist_is_correct / dlist_check of list %d disagree with the reference (%zu entries)", when, l, m[l].size());
                        if (!m[l].empty())
                        {
                            if (c01_c_first(h) != it[m[l].front()].get() || c01_c_last(h) != it[m[l].back()].get()) violate("C01/c-dlist-entry", "%s: compiled as C, dlist_first_entry / dlist_last_entry of list %d differ from the reference", when, l);
                            for (size_t q = 0; q + 1 < m[l].size(); q++)
                                if (c01_c_next(it[m[l][q]].get()) != it[m[l][q + 1]].get() || c01_c_prev(it[m[l][q + 1]].get()) != it[m[l][q]].get())
                                    violate("C01/c-dlist-entry", "%s: compiled as C, dlist_next_entry / dlist_prev_entry differ from the reference at position %zu of list %d", when, q, l);
                        }
                    }
                    {
                        // the entry-level accessors: reverse entry iteration, first/last entry, next/prev entry of every element
                        std::vector<int> rent;
                        guard = 0;
                        dlist_for_each_entry_reverse(pos, h, lnk)
                        {
                            if (++guard > ni + 2) violate("C01/c-dlist-cycle", "%s: dlist_for_each_entry_reverse on list %d does not end", when, l);
                            rent.push_back(pos->id);
                        }
                        std::reverse(rent.begin(), rent.end());
                        if (rent != m[l]) violate("C01/c-dlist-entry", "%s: dlist_for_each_entry_reverse (reversed) yields %s, reference %s", when, seq(rent).c_str(), seq(m[l]).c_str());
                        if (!m[l].empty())
                        {
                            if (dlist_first_entry(h, CItem, lnk)->id != m[l].front() || dlist_last_entry(h, CItem, lnk)->id != m[l].back())
                                violate("C01/c-dlist-entry", "%s: dlist_first_entry / dlist_last_entry of list %d differ from the reference", when, l);
                            {
                                // the pointer argument of the entry macros may be any expression (a conditional, pointer arithmetic)
                                bool fwd = (m[l].size() & 1) != 0;
                                CItem *e1 = dlist_entry(fwd ? h->next : h->prev, CItem, lnk);
                                dlist_head *arr[2] = {h->prev, h->next};
                                CItem *e2 = dlist_entry(*(arr + 1), CItem, lnk);
                                if (e1->id != (fwd ? m[l].front() : m[l].back()) || e2->id != m[l].front())
                                    violate("C01/c-dlist-entry", "%s: dlist_entry with a compound pointer expression gives the wrong element of list %d", when, l);
                            }
                            for (size_t q = 0; q + 1 < m[l].size(); q++)
                            {
                                CItem *a = it[m[l][q]].get(), *b = it[m[l][q + 1]].get();
                                if (dlist_next_entry(a, lnk) != b || dlist_prev_entry(b, lnk) != a || dlist_entry(&a->lnk, CItem, lnk) != a)
                                    violate("C01/c-dlist-entry", "%s: dlist_next_entry / dlist_prev_entry between positions %zu and %zu of list %d differ from the reference", when, q, q + 1, l);
                            }
                        }
                    }
                    if (dlist_size(h) != (int)m[l].size() || dlist_size_reversed(h) != (int)m[l].size())
                        violate("C01/c-dlist-size", "%s: list %d size %d / reversed %d, reference %zu", when, l, dlist_size(h), dlist_size_reversed(h), m[l].size());
                    if ((dlist_empty(h) != 0) != m[l].empty()) violate("C01/c-dlist-empty", "%s: list %d dlist_empty=%d reference size %zu", when, l, dlist_empty(h), m[l].size());
                    if (!dlist_is_correct(h)) violate("C01/c-dlist-is_correct", "%s: dlist_is_correct(list %d) is false", when, l);
                    if (dlist_check(h, ni + 2) != (int)m[l].size()) violate("C01/c-dlist-check", "%s: dlist_check(list %d)=%d reference %zu", when, l, dlist_check(h, ni + 2), m[l].size());
                    {
                        // the bounded walks at and around the exact bound: the ring of n entries closes after n + 1 steps
                        int n_ = (int)m[l].size();
                        for (int b = std::max(0, n_ - 1); b <= n_ + 3; b++)
                        {
                            int want = b >= n_ + 1 ? n_ : -1;
                            if (dlist_check(h, b) != want || dlist_check_reversed(h, b) != want)
                                violate("C01/c-dlist-check", "%s: dlist_check(list %d, bound %d) = %d / reversed %d, a ring of %d entries gives %d", when, l, b, dlist_check(h, b), dlist_check_reversed(h, b), n_, want);
                        }
                    }
                    for (int i = 0; i < ni; i++)
                    {
                        bool in = std::find(m[l].begin(), m[l].end(), i) != m[l].end();
                        if ((dlist_in(&it[i]->lnk, h) != 0) != in) violate("C01/c-dlist-in", "%s: dlist_in(item %d, list %d)=%d reference %d", when, i, l, dlist_in(&it[i]->lnk, h), (int)in);
                    }
                    if (!m[l].empty()) nonempty++;
                }
                max_nonempty = std::max(max_nonempty, nonempty);
                for (int i = 0; i < ni; i++)
                {
                    dlist_head *n = &it[i]->lnk;
                    if (st[i] == LINKED)
                    {
                        if (n->next->prev != n || n->prev->next != n) violate("C01/c-dlist-neighbours", "%s: neighbours of linked item %d do not point back at it", when, i);
                        if (!dlist_is_linked(n)) violate("C01/c-dlist-is_linked", "%s: linked item %d reports dlist_is_linked()==0", when, i);
                    }
                    else if (st[i] == UNLINKED)
                    {
                        if (n->next != n || n->prev != n) violate("C01/c-dlist-selflink", "%s: unlinked (initialised / del_init'ed) item %d is not self-linked", when, i);
                    }
                }
            };
            check("init");
            for (auto &o : p.ops)
            {
                int k = (int)mod(arg(o, 0), C_N);
                int i = (int)mod(arg(o, 1), ni), l = (int)mod(arg(o, 2), nl), t = (int)mod(arg(o, 3), ni);
                dlist_head *n = &it[i]->lnk, *h = heads[l].get();
                auto unlink_model = [&](int x) {
                    if (st[x] == LINKED) erase_val(m[where[x]], x);
                    where[x] = -1;
                };
                auto ins_rel = [&](int x, int tgt, bool after) {
                    int L = where[tgt];
                    auto pos = std::find(m[L].begin(), m[L].end(), tgt);
                    m[L].insert(after ? pos + 1 : pos, x);
                    where[x] = L;
                    st[x] = LINKED;
                };
                bool done = true;
                switch (k)
                {
                case C_ADD_NEXT:
                case C_ADD_PREV:
                case C_ADD_AFTER:
                case C_ADD_BEFORE:
                case C_MOVE_SORTED:
                case C_INSTEAD:
                    // the add family takes unlinked nodes only; a dlist_del'ed (poisoned) node is re-initialised first
                    // the add family takes nodes that are in no list, in whatever state their links are (self-linked, poisoned by
                    // dlist_del, never initialised, left over from a re-initialised list): it only writes them
                    if (st[i] == LINKED) { done = false; break; }
                    if (st[i] == POISONED || st[i] == STALE) probe("add_of_uninitialised_or_poisoned_node");
                    if (k == C_ADD_NEXT) { if (i & 1) c01_c_add_next(n, h); else dlist_add_next(n, h); m[l].insert(m[l].begin(), i); where[i] = l; st[i] = LINKED; }
                    else if (k == C_ADD_PREV) { if (i & 1) c01_c_add_prev(n, h); else dlist_add_prev(n, h); m[l].push_back(i); where[i] = l; st[i] = LINKED; }
                    else if (k == C_MOVE_SORTED)
                    {
                        CItem *added = it[i].get();
                        if ((i + l) & 1) c01_c_move_sorted(added, h); // (the same macro, expanded by the C compiler)
                        else dlist_move_sorted(added, h, lnk, c_less);
                        auto pos = m[l].begin();
                        while (pos != m[l].end() && !(it[i]->key < it[*pos]->key)) ++pos;
                        m[l].insert(pos, i);
                        where[i] = l;
                        st[i] = LINKED;
                        probe("sorted_insert");
                    }
                    else
                    {
                        if (k == C_INSTEAD && st[t] == UNLINKED && t != i)
                        {
                            // replacing a node that is itself unlinked (self-linked): both end up unlinked
                            dlist_insert_instead(n, &it[t]->lnk);
                            st[i] = UNLINKED;
                            probe("insert_instead_of_unlinked");
                            break;
                        }
                        if (st[t] != LINKED || t == i) { done = false; break; }
                        if (k == C_ADD_AFTER) { dlist_add_next(n, &it[t]->lnk); ins_rel(i, t, true); }
                        else if (k == C_ADD_BEFORE && (i + t) % 3 != 0)
                        {
                            // the insertion is made from inside a _safe walk over t's list, when the cursor stands on t
                            int L = where[t];
                            std::vector<int> seen((size_t)ni + 4);
                            int ns = (i + t) % 3 == 1 ? cxx_safe_walk_edit(heads[L].get(), t, 0, n, seen.data(), ni + 2) : c01_c_safe_walk_edit(heads[L].get(), t, 0, n, seen.data(), ni + 2);
                            seen.resize((size_t)std::max(ns, 0));
                            if (ns < 0 || seen != m[L]) violate("C01/loop-macro-statement", "a dlist_for_each_safe walk whose body links a new entry in front of the cursor visited %s, the list held %s when it started", seq(seen).c_str(), seq(m[L]).c_str());
                            ins_rel(i, t, false);
                            probe("safe_walk_inserted_in_front_of_the_cursor");
                        }
                        else if (k == C_ADD_BEFORE) { dlist_add_prev(n, &it[t]->lnk); ins_rel(i, t, false); }
                        else
                        {
                            dlist_insert_instead(n, &it[t]->lnk);
                            ins_rel(i, t, false);
                            erase_val(m[where[t]], t);
                            where[t] = -1;
                            st[t] = UNLINKED;
                            probe("insert_instead");
                        }
                    }
                    break;
                case C_DEL:
                    if (st[i] != LINKED) { done = false; break; }
                    dlist_del(n);
                    unlink_model(i);
                    st[i] = POISONED;
                    break;
                case C_DEL_INIT:
                    if (st[i] == POISONED || st[i] == STALE) { done = false; break; }
                    if (st[i] == UNLINKED) probe("second_removal");
                    if (st[i] == LINKED && mod(arg(o, 3), 4) == 3 && m[where[i]].back() != i)
                    {
                        // i is removed from inside a _safe walk over its list, when the cursor stands on i's successor
                        int L = where[i];
                        int succ = *(std::find(m[L].begin(), m[L].end(), i) + 1);
                        std::vector<int> seen((size_t)ni + 4);
                        int ns = (i & 1) ? cxx_safe_walk_edit(heads[L].get(), succ, 1, nullptr, seen.data(), ni + 2) : c01_c_safe_walk_edit(heads[L].get(), succ, 1, nullptr, seen.data(), ni + 2);
                        seen.resize((size_t)std::max(ns, 0));
                        if (ns < 0 || seen != m[L]) violate("C01/loop-macro-statement", "a dlist_for_each_safe walk whose body removes the entry visited just before the cursor visited %s, the list held %s when it started", seq(seen).c_str(), seq(m[L]).c_str());
                        unlink_model(i);
                        st[i] = UNLINKED;
                        probe("safe_walk_removed_the_previous_entry");
                        break;
                    }
                    if (st[i] == LINKED && mod(arg(o, 3), 3) != 0)
                    {
                        // the remove-first idiom: a _safe walk over the entry's list that unlinks the first entry of i's parity and
                        // leaves with break - later entries of the same parity stay
                        int L = where[i], j = -1, same = 0;
                        for (int id : m[L])
                            if ((id & 1) == (i & 1)) { if (j < 0) j = id; same++; }
                        int removed = mod(arg(o, 3), 3) == 1 ? cxx_remove_first_dl(heads[L].get(), i & 1) : c01_c_remove_first_dl(heads[L].get(), i & 1);
                        if (removed != j) violate("C01/loop-macro-statement", "the remove-first idiom over dlist_for_each_entry_safe (unlink the first match, break) returned %d on a list with %d matching entries, the first of them is %d", removed, same, j);
                        if (same >= 2) probe("remove_first_idiom_with_several_matches");
                        unlink_model(j);
                        st[j] = UNLINKED;
                        break;
                    }
                    else dlist_del_init(n);
                    unlink_model(i);
                    st[i] = UNLINKED;
                    break;
                case C_MOVE:
                case C_MOVE_TAIL:
                    if (st[i] == POISONED || st[i] == STALE) { done = false; break; }
                    if (st[i] == LINKED && m[where[i]].size() == 1) probe("single_element_move");
                    if (k == C_MOVE) dlist_move(n, h);
                    else dlist_move_tail(n, h);
                    unlink_model(i);
                    if (k == C_MOVE) m[l].insert(m[l].begin(), i);
                    else m[l].push_back(i);
                    where[i] = l;
                    st[i] = LINKED;
                    moves++;
                    break;
                case C_MOVE_AFTER:
                case C_MOVE_BEFORE:
                {
                    if (st[i] == POISONED || st[i] == STALE) { done = false; break; }
                    if (t != i && st[t] != LINKED) { done = false; break; }
                    if (t == i)
                    {
                        // moving a node next to itself: no agreed meaning; either "no-op" or "node removed" is accepted,
                        // but every list must stay well-formed (checked below)
                        if (st[i] != LINKED) { done = false; break; }
                        probe("self_move");
                        if (k == C_MOVE_AFTER) dlist_move(n, n);
                        else dlist_move_tail(n, n);
                        bool still = dlist_in(n, heads[where[i]].get()) != 0;
                        if (!still) { unlink_model(i); st[i] = (n->next == n && n->prev == n) ? UNLINKED : POISONED; }
                        moves++;
                        break;
                    }
                    if (st[i] == LINKED && where[i] == where[t])
                    {
                        auto &v = m[where[i]];
                        auto pi = std::find(v.begin(), v.end(), i) - v.begin(), pt = std::find(v.begin(), v.end(), t) - v.begin();
                        if (pi - pt == 1 || pt - pi == 1) probe("move_to_neighbour");
                    }
                    if (k == C_MOVE_AFTER) dlist_move(n, &it[t]->lnk);
                    else dlist_move_tail(n, &it[t]->lnk);
                    unlink_model(i);
                    ins_rel(i, t, k == C_MOVE_AFTER);
                    moves++;
                    break;
                }
                case C_TAKEOVER:
                {
                    // whole-list splice: a fresh head takes the place of list l's head (dlist_insert_instead on heads, as
                    // igris::series' move constructor does); the old head must come out empty and self-linked
                    std::unique_ptr<dlist_head> nh(new dlist_head());
                    dlist_init(nh.get());
                    if (m[l].empty()) probe("takeover_of_empty_list");
                    dlist_insert_instead(nh.get(), h);
                    if (h->next != h || h->prev != h) violate("C01/c-dlist-takeover", "after dlist_insert_instead the replaced list head is not self-linked");
                    heads[l] = std::move(nh);
                    probe("head_takeover");
                    break;
                }
                case C_HEAD_REINIT:
                    // the list is reset wholesale (dlist_init on the head): its nodes are in no list any more, their links are stale
                    if (!m[l].empty()) { fault("list_reset_with_nodes"); probe("head_reinit_nonempty"); }
                    dlist_init(h);
                    for (int x : m[l]) { st[x] = STALE; where[x] = -1; }
                    m[l].clear();
                    break;
                case C_NODE_INIT:
                    // a node that is in no list may be (re-)initialised at any time
                    if (st[i] == LINKED) { done = false; break; }
                    dlist_init(n);
                    st[i] = UNLINKED;
                    break;
                case C_SAFE_SWEEP:
                case C_SAFE_ENTRY_SWEEP:
                {
                    // removal while iterating with the *_safe macros: every node whose id has the parity of t is del_init'ed
                    int par = t & 1;
                    if (k == C_SAFE_SWEEP)
                    {
                        dlist_head *pos, *nx;
                        int guard = 0;
                        dlist_for_each_safe(pos, nx, h)
                        {
                            if (++guard > ni + 2) violate("C01/c-dlist-cycle", "dlist_for_each_safe does not terminate");
                            if ((idof(pos) & 1) == par) dlist_del_init(pos);
                        }
                    }
                    else
                    {
                        CItem *pos, *nx;
                        int guard = 0;
                        dlist_for_each_entry_safe(pos, nx, h, lnk)
                        {
                            if (++guard > ni + 2) violate("C01/c-dlist-cycle", "dlist_for_each_entry_safe does not terminate");
                            if ((pos->id & 1) == par) dlist_del_init(&pos->lnk);
                        }
                    }
                    std::vector<int> keep;
                    for (int x : m[l])
                    {
                        if ((x & 1) == par) { where[x] = -1; st[x] = UNLINKED; }
                        else keep.push_back(x);
                    }
                    m[l] = keep;
                    probe("removal_during_safe_iteration");
                    break;
                }
                case C_DEATH:
                    // C nodes have no destructor: their death is dlist_del followed by the release of the memory
                    if (st[i] == LINKED)
                    {
                        auto &v = m[where[i]];
                        if (v.size() >= 2 && (v[1] == i || v[0] == i)) probe("destroy_linked_head_neighbour");
                        dlist_del(n);
                        unlink_model(i);
                        deaths_linked++;
                        fault("death_of_linked_node");
                    }
                    fresh(i);
                    break;
                }
                if (done) tr.ev("%s i%d L%d t%d", C_NAME[k], i, l, t);
                check(C_NAME[k]);
            }
            res.nontrivial = max_nonempty >= 2 && moves >= 1 && deaths_linked >= 1;
            return res;
        }
    };

    // ================================================================ C++ dlist_node / dlist_base / dlist<>
    struct XItem
    {
        int id = 0;
        igris::dlist_node lnk;
    };
    typedef igris::dlist<XItem, &XItem::lnk> XList;
    enum { X_FRONT, X_BACK, X_NEXT_OF, X_PREV_OF, X_NODE_NEXT, X_NODE_PREV, X_POP, X_POP_FRONT, X_POP_BACK, X_UNLINK, X_CLEAR, X_SPLICE,
           X_ITEM_DEATH, X_LIST_DEATH, X_NEXT_OF_END, X_PREV_OF_END, X_PREV_OF_BEGIN, X_LIVE_ITER, X_N };
    const char *X_NAME[] = {"move_front", "move_back", "move_next(obj,obj)", "move_prev(obj,obj)", "node.move_next_than", "node.move_prev_than", "pop(obj)", "pop_front",
                            "pop_back", "unlink", "clear", "splice_all_from", "item_death", "list_death", "move_next(obj,end())", "move_prev(obj,end())", "move_prev(obj,begin())", "step_live_iterators_after_a_change"};

    struct XDlistWorld : World
    {
        const char *name() const override { return "cxx-dlist"; }
        unsigned weight(Tier) const override { return 4; }
        Plan generate(Rng &r, Tier tier) override
        {
            Plan p;
            int ni = (int)r.range(1, tier == THOROUGH ? 12 : 8), nl = (int)r.range(1, 4);
            p.cfg = {ni, nl};
            int n = (int)r.range(4, tier == THOROUGH ? 120 : 50);
            if (r.chance(1, 40)) n *= 25; // a long history: what only accumulates over hundreds or thousands of operations
            for (int i = 0; i < n; i++)
            {
                int64_t it = (int64_t)r.below(ni), l = (int64_t)r.below(nl);
                int64_t tg = r.chance(1, 5) ? it : (int64_t)r.below(ni);
                int64_t k = r.chance(3, 5) ? (int64_t)r.below(6) : (int64_t)r.below(X_N);
                p.ops.push_back({k, it, l, tg, (int64_t)r.below(nl)});
            }
            return p;
        }
        std::string describe(const Plan &p) override
        {
            std::string s = "items=" + std::to_string(mod(p.c(0) - 1, 12) + 1) + " lists=" + std::to_string(mod(p.c(1) - 1, 4) + 1) + ":";
            for (auto &o : p.ops) s += std::string(" ") + X_NAME[mod(arg(o, 0), X_N)] + "(i" + std::to_string(arg(o, 1)) + ",L" + std::to_string(arg(o, 2)) + ",t" + std::to_string(arg(o, 3)) + ")";
            return s;
        }
        Result execute(const Plan &p, Trace &tr) override
        {
            Result res;
            int ni = (int)mod(p.c(0) - 1, 12) + 1, nl = (int)mod(p.c(1) - 1, 4) + 1;
            std::vector<std::unique_ptr<XItem>> it(ni);
            std::vector<std::unique_ptr<XList>> lists(nl);
            // model: lists 0..nl-1 have a sentinel; further entries are orphan rings (nodes cut loose by a splice)
            std::vector<std::vector<int>> m(nl);
            std::vector<St> st(ni, UNLINKED);
            std::vector<int> where(ni, -1);
            for (int i = 0; i < ni; i++) { it[i].reset(new XItem()); it[i]->id = i; }
            for (int l = 0; l < nl; l++) lists[l].reset(new XList());
            int moves = 0, deaths_linked = 0, max_nonempty = 0;
            auto idof = [&](igris::dlist_node *n) -> int {
                for (int i = 0; i < ni; i++)
                    if (&it[i]->lnk == n) return i;
                return -1;
            };
            auto unlink_model = [&](int x) {
                if (where[x] >= 0)
                {
                    int L = where[x];
                    erase_val(m[L], x);
                    if (L >= nl && m[L].size() == 1)
                    {
                        // a ring of one node is a self-linked node
                        int last = m[L][0];
                        m[L].clear();
                        st[last] = UNLINKED;
                        where[last] = -1;
                    }
                }
                where[x] = -1;
                st[x] = UNLINKED;
            };
            auto check = [&](const char *when) {
                int nonempty = 0;
                for (int l = 0; l < nl; l++)
                {
                    XList &L = *lists[l];
                    std::vector<int> fwd, bwd;
                    int guard = 0;
                    for (auto i = L.begin(); i != L.end(); ++i)
                    {
                        if (++guard > ni + 2) violate("C01/cxx-dlist-cycle", "%s: forward iteration of list %d does not reach end() (reference %s)", when, l, seq(m[l]).c_str());
                        int id = idof(i.current);
                        if (id < 0) violate("C01/cxx-dlist-foreign-node", "%s: list %d contains a node that is no live item (a list head or a destroyed node); reference %s", when, l, seq(m[l]).c_str());
                        if (&*i != it[id].get()) violate("C01/cxx-dlist-cast", "%s: iterator dereference does not give the containing object", when);
                        fwd.push_back(id);
                    }
                    guard = 0;
                    for (auto i = L.rbegin(); i != L.rend(); ++i)
                    {
                        if (++guard > ni + 2) violate("C01/cxx-dlist-cycle", "%s: reverse iteration of list %d does not reach rend()", when, l);
                        bwd.push_back((*i).id);
                    }
                    if (fwd != m[l]) violate("C01/cxx-dlist-forward", "%s: list %d forward %s, reference %s", when, l, seq(fwd).c_str(), seq(m[l]).c_str());
                    {
                        // const iteration and post-increment / decrement walk the same sequence
                        const XList &cl = L;
                        std::vector<int> cf;
                        int g2 = 0;
                        for (auto i = cl.begin(); i != cl.end(); i++)
                        {
                            if (++g2 > ni + 2) violate("C01/cxx-dlist-cycle", "%s: const iteration of list %d does not end", when, l);
                            cf.push_back((*i).id);
                        }
                        if (cf != m[l]) violate("C01/cxx-dlist-forward", "%s: const/post-increment iteration of list %d gives %s, reference %s", when, l, seq(cf).c_str(), seq(m[l]).c_str());
                        std::vector<int> back;
                        auto e = L.end();
                        g2 = 0;
                        while (e != L.begin())
                        {
                            if (++g2 > ni + 2) violate("C01/cxx-dlist-cycle", "%s: decrementing from end() of list %d does not reach begin()", when, l);
                            --e;
                            back.push_back((*e).id);
                        }
                        std::reverse(back.begin(), back.end());
                        if (back != m[l]) violate("C01/cxx-dlist-backward", "%s: operator-- from end() of list %d gives %s, reference %s", when, l, seq(back).c_str(), seq(m[l]).c_str());
                    }
                    {
                        // the remaining iterator operators: post-decrement, ==, ->, and the reverse iterator's ++(int), --, --(int), ==, ->
                        std::vector<int> a, b, c;
                        auto e = L.end();
                        int g3 = 0;
                        while (!(e == L.begin()))
                        {
                            if (++g3 > ni + 2) violate("C01/cxx-dlist-cycle", "%s: post-decrementing from end() of list %d does not reach begin()", when, l);
                            e--;
                            a.push_back(e->id);
                        }
                        std::reverse(a.begin(), a.end());
                        if (a != m[l]) violate("C01/cxx-dlist-backward", "%s: operator--(int) / operator-> walk of list %d gives %s, reference %s", when, l, seq(a).c_str(), seq(m[l]).c_str());
                        {
                            // the VALUE of it++ / it-- is the old position (as in *it++ and the erase idiom l.pop(*it++))
                            std::vector<int> pv;
                            auto pi = L.begin();
                            int g6 = 0;
                            while (pi != L.end())
                            {
                                if (++g6 > ni + 2) violate("C01/cxx-dlist-cycle", "%s: *it++ walk of list %d does not end", when, l);
                                pv.push_back((*pi++).id);
                            }
                            if (pv != m[l]) violate("C01/cxx-dlist-forward", "%s: a walk with *it++ over list %d gives %s, reference %s", when, l, seq(pv).c_str(), seq(m[l]).c_str());
                            if (!m[l].empty())
                            {
                                auto pe = L.end();
                                auto was = pe--;
                                if (!(was == L.end()) || (*pe).id != m[l].back()) violate("C01/cxx-dlist-backward", "%s: it-- on end() of list %d does not return the old position / move to the last element", when, l);
                            }
                        }
                        if ((L.begin() == L.end()) != m[l].empty()) violate("C01/cxx-dlist-empty", "%s: begin() == end() is %d for a list of %zu", when, (int)(L.begin() == L.end()), m[l].size());
                        g3 = 0;
                        auto r = L.rbegin();
                        for (; !(r == L.rend()); r++)
                        {
                            if (++g3 > ni + 2) violate("C01/cxx-dlist-cycle", "%s: reverse post-increment iteration of list %d does not end", when, l);
                            b.push_back(r->id);
                        }
                        std::reverse(b.begin(), b.end());
                        if (b != m[l]) violate("C01/cxx-dlist-backward", "%s: reverse_iterator++(int) walk of list %d (reversed) gives %s, reference %s", when, l, seq(b).c_str(), seq(m[l]).c_str());
                        // and back again: decrementing a reverse iterator from rend() walks forward
                        g3 = 0;
                        while (r != L.rbegin())
                        {
                            if (++g3 > ni + 2) violate("C01/cxx-dlist-cycle", "%s: decrementing a reverse iterator of list %d does not reach rbegin()", when, l);
                            if (g3 & 1) --r;
                            else r--;
                            c.push_back((*r).id);
                        }
                        if (c != m[l]) violate("C01/cxx-dlist-forward", "%s: reverse_iterator-- walk of list %d gives %s, reference %s", when, l, seq(c).c_str(), seq(m[l]).c_str());
                    }
                    std::reverse(bwd.begin(), bwd.end());
                    if (bwd != m[l]) violate("C01/cxx-dlist-backward", "%s: list %d backward (reversed) %s, reference %s", when, l, seq(bwd).c_str(), seq(m[l]).c_str());
                    if (L.size() != m[l].size()) violate("C01/cxx-dlist-size", "%s: list %d size()=%zu reference %zu", when, l, L.size(), m[l].size());
                    if (L.empty() != m[l].empty()) violate("C01/cxx-dlist-empty", "%s: list %d empty()=%d reference size %zu", when, l, (int)L.empty(), m[l].size());
                    if (!L.is_correct()) violate("C01/cxx-dlist-is_correct", "%s: list %d is_correct() is false", when, l);
                    if (!m[l].empty())
                    {
                        if (L.front().id != m[l].front() || L.first().id != m[l].front() || L.back().id != m[l].back())
                            violate("C01/cxx-dlist-front-back", "%s: list %d front/back differ from the reference", when, l);
                        if (idof(L.first_node()) != m[l].front() || idof(L.last_node()) != m[l].back()) violate("C01/cxx-dlist-front-back", "%s: first_node/last_node differ", when);
                        nonempty++;
                    }
                }
                max_nonempty = std::max(max_nonempty, nonempty);
                for (size_t r = nl; r < m.size(); r++)
                {
                    auto &ring = m[r];
                    for (size_t k = 0; k < ring.size(); k++)
                    {
                        igris::dlist_node *n = &it[ring[k]]->lnk;
                        if (n->next != &it[ring[(k + 1) % ring.size()]]->lnk || n->prev != &it[ring[(k + ring.size() - 1) % ring.size()]]->lnk)
                            violate("C01/cxx-dlist-orphan-ring", "%s: nodes cut loose by a splice are no longer a consistent ring", when);
                    }
                }
                for (int i = 0; i < ni; i++)
                {
                    igris::dlist_node *n = &it[i]->lnk;
                    if (n->next->prev != n || n->prev->next != n) violate("C01/cxx-dlist-neighbours", "%s: neighbours of item %d do not point back at it", when, i);
                    bool linked = st[i] != UNLINKED;
                    if (n->is_linked() != linked || n->is_unlinked() == linked)
                        violate("C01/cxx-dlist-is_linked", "%s: item %d is_linked()=%d, reference says %s", when, i, (int)n->is_linked(), linked ? "linked" : "unlinked");
                    if (!linked && (n->next != n || n->prev != n)) violate("C01/cxx-dlist-selflink", "%s: unlinked item %d is not self-linked", when, i);
                    if (n->empty() == linked) violate("C01/cxx-dlist-is_linked", "%s: item %d node.empty()=%d, reference says %s", when, i, (int)n->empty(), linked ? "linked" : "unlinked");
                }
            };
            auto ins_rel = [&](int x, int tgt, bool after) {
                int L = where[tgt];
                auto pos = std::find(m[L].begin(), m[L].end(), tgt);
                m[L].insert(after ? pos + 1 : pos, x);
                where[x] = L;
                st[x] = L < nl ? LINKED : ORPHAN;
            };
            check("init");
            for (auto &o : p.ops)
            {
                int k = (int)mod(arg(o, 0), X_N);
                int i = (int)mod(arg(o, 1), ni), l = (int)mod(arg(o, 2), nl), t = (int)mod(arg(o, 3), ni), l2 = (int)mod(arg(o, 4), nl);
                XItem &obj = *it[i];
                XList &L = *lists[l];
                bool done = true;
                switch (k)
                {
                case X_FRONT:
                case X_BACK:
                    if (st[i] == LINKED && m[where[i]].size() == 1) probe("single_element_move");
                    if (st[i] != UNLINKED) probe("reinsert_linked_node");
                    if ((i + l) & 1)
                    {
                        // the untyped interface of the base class takes the node itself
                        igris::dlist_base &base = L;
                        if (k == X_FRONT) base.move_front(obj.lnk);
                        else base.move_back(obj.lnk);
                    }
                    else if (k == X_FRONT) L.move_front(obj);
                    else L.move_back(obj);
                    unlink_model(i);
                    if (k == X_FRONT) m[l].insert(m[l].begin(), i);
                    else m[l].push_back(i);
                    where[i] = l;
                    st[i] = LINKED;
                    moves++;
                    break;
                case X_NEXT_OF:
                case X_PREV_OF:
                case X_NODE_NEXT:
                case X_NODE_PREV:
                {
                    bool after = (k == X_NEXT_OF || k == X_NODE_NEXT);
                    if (t == i)
                    {
                        // self-move: accepted outcomes are "no-op" and "node removed"; lists must stay well-formed
                        probe("self_move");
                        bool was = st[i] != UNLINKED;
                        if (k == X_NEXT_OF) L.move_next(obj, obj);
                        else if (k == X_PREV_OF) L.move_prev(obj, obj);
                        else if (k == X_NODE_NEXT) obj.lnk.move_next_than(&obj.lnk);
                        else obj.lnk.move_prev_than(&obj.lnk);
                        if (was && !obj.lnk.is_linked()) unlink_model(i);
                        moves++;
                        break;
                    }
                    if (st[t] == UNLINKED) { done = false; break; } // target must be in a list (or ring)
                    if (st[i] != UNLINKED && where[i] == where[t])
                    {
                        auto &v = m[where[i]];
                        auto pi = std::find(v.begin(), v.end(), i) - v.begin(), pt = std::find(v.begin(), v.end(), t) - v.begin();
                        if (pi - pt == 1 || pt - pi == 1) probe("move_to_neighbour");
                    }
                    if (k == X_NEXT_OF)
                    {
                        // alternate between the object overload and the iterator overload (iterator positioned on t)
                        if ((i + t) & 1) L.move_next(obj, *it[t]);
                        else L.move_next(obj, XList::iterator(&it[t]->lnk));
                    }
                    else if (k == X_PREV_OF)
                    {
                        if ((i + t) & 1) L.move_prev(obj, *it[t]);
                        else L.move_prev(obj, XList::iterator(&it[t]->lnk));
                    }
                    else if (k == X_NODE_NEXT) obj.lnk.move_next_than(&it[t]->lnk);
                    else obj.lnk.move_prev_than(&it[t]->lnk);
                    {
                        // unlinking i may dissolve a two-node orphan ring that t is part of: t then is a plain self-linked node and
                        // the pair forms a new two-node ring
                        int Lt = where[t];
                        bool same_ring_pair = Lt >= nl && where[i] == Lt && m[Lt].size() == 2;
                        unlink_model(i);
                        if (same_ring_pair)
                        {
                            m.push_back({t});
                            where[t] = (int)m.size() - 1;
                            st[t] = ORPHAN;
                        }
                    }
                    ins_rel(i, t, after);
                    moves++;
                    break;
                }
                case X_NEXT_OF_END:
                case X_PREV_OF_END:
                case X_PREV_OF_BEGIN:
                {
                    // the iterator overloads with the boundary iterators: after end() (the sentinel) is the front, before end()
                    // the back, before begin() the front
                    bool to_front = k != X_PREV_OF_END;
                    if (k == X_PREV_OF_BEGIN && !m[l].empty() && m[l].front() == i) { done = false; break; } // before itself: a self-move
                    if (k == X_NEXT_OF_END) L.move_next(obj, L.end());
                    else if (k == X_PREV_OF_END) L.move_prev(obj, L.end());
                    else L.move_prev(obj, L.begin());
                    unlink_model(i);
                    if (to_front) m[l].insert(m[l].begin(), i);
                    else m[l].push_back(i);
                    where[i] = l;
                    st[i] = LINKED;
                    moves++;
                    probe("move_relative_to_boundary_iterator");
                    break;
                }
                case X_LIVE_ITER:
                {
                    // iterators of a node-based list stay on their element while its neighbours come and go: a forward and a reverse
                    // iterator stand on an element, one neighbour is removed or a new one is linked in next to it, then both are
                    // stepped once and must arrive at the element's neighbours of that moment (or at end() / rend()); end() and
                    // rend() taken before the change still compare equal to the ones taken after it
                    if (m[l].empty()) { done = false; break; }
                    int cur = m[l][(size_t)t % m[l].size()];
                    XList::iterator fit = L.begin();
                    while (&*fit != it[cur].get()) ++fit;
                    XList::reverse_iterator rit = L.rbegin();
                    while (&*rit != it[cur].get()) ++rit;
                    XList::iterator old_end = L.end();
                    XList::reverse_iterator old_rend = L.rend();
                    size_t pos = (size_t)(std::find(m[l].begin(), m[l].end(), cur) - m[l].begin());
                    int action = (int)mod(arg(o, 4) + arg(o, 1), 5);
                    int fresh = -1;
                    for (int q = 0; q < ni; q++)
                        if (st[q] == UNLINKED && it[q]) { fresh = q; break; }
                    if (action == 0 && pos + 1 < m[l].size()) { int v = m[l][pos + 1]; it[v]->lnk.unlink(); unlink_model(v); }
                    else if (action == 1 && pos > 0) { int v = m[l][pos - 1]; L.pop(*it[v]); unlink_model(v); }
                    else if (action == 2 && fresh >= 0) { L.move_next(*it[fresh], *it[cur]); ins_rel(fresh, cur, true); }
                    else if (action == 3 && fresh >= 0) { L.move_prev(*it[fresh], *it[cur]); ins_rel(fresh, cur, false); }
                    else if (action == 4 && pos > 0) { int v = m[l].front(); L.pop_front(); unlink_model(v); }
                    else { done = false; break; }
                    pos = (size_t)(std::find(m[l].begin(), m[l].end(), cur) - m[l].begin());
                    ++fit;
                    ++rit;
                    if (pos + 1 < m[l].size() ? (fit == L.end() || &*fit != it[m[l][pos + 1]].get()) : !(fit == L.end()))
                        violate("C01/cxx-dlist-live-iterator", "a forward iterator standing on an element was stepped after a neighbour of that element was %s: it did not arrive at the element's successor of that moment",
                                action <= 1 || action == 4 ? "removed" : "linked in");
                    if (pos > 0 ? (rit == L.rend() || &*rit != it[m[l][pos - 1]].get()) : !(rit == L.rend()))
                        violate("C01/cxx-dlist-live-iterator", "a reverse iterator standing on an element was stepped after a neighbour of that element was %s: it did not arrive at the element's predecessor of that moment",
                                action <= 1 || action == 4 ? "removed" : "linked in");
                    if (!(old_end == L.end()) || !(old_rend == L.rend())) violate("C01/cxx-dlist-live-iterator", "end() / rend() taken before a change of the list differ from the ones taken after it");
                    probe("live_iterator_stepped_after_change");
                    break;
                }
                case X_POP:
                case X_UNLINK:
                    if (st[i] == UNLINKED) probe("second_removal");
                    if (k == X_POP) L.pop(obj);
                    else obj.lnk.unlink();
                    unlink_model(i);
                    break;
                case X_POP_FRONT:
                case X_POP_BACK:
                    // on an empty list these unlink the (self-linked) head: harmless
                    if (k == X_POP_FRONT) L.pop_front();
                    else L.pop_back();
                    if (!m[l].empty()) unlink_model(k == X_POP_FRONT ? m[l].front() : m[l].back());
                    break;
                case X_CLEAR:
                    L.clear();
                    while (!m[l].empty()) unlink_model(m[l].front());
                    break;
                case X_SPLICE:
                {
                    if (l2 == l) { done = false; break; }
                    if (!m[l].empty()) probe("splice_into_nonempty");
                    if (m[l2].empty()) probe("splice_from_empty");
                    L.unlink_and_move_all_nodes_from_other(std::move(*lists[l2]));
                    // the destination's previous nodes are cut loose as a ring without a head
                    if (m[l].size() == 1) { int x = m[l][0]; m[l].clear(); st[x] = UNLINKED; where[x] = -1; }
                    else if (m[l].size() >= 2)
                    {
                        m.push_back(m[l]);
                        for (int x : m[l]) { where[x] = (int)m.size() - 1; st[x] = ORPHAN; }
                        m[l].clear();
                    }
                    m[l] = m[l2];
                    m[l2].clear();
                    for (int x : m[l]) where[x] = l;
                    break;
                }
                case X_ITEM_DEATH:
                    if (st[i] != UNLINKED)
                    {
                        auto &v = m[where[i]];
                        if (where[i] < nl && v.size() >= 2 && (v[0] == i || v[1] == i)) probe("destroy_linked_head_neighbour");
                        deaths_linked++;
                        fault("death_of_linked_node");
                    }
                    unlink_model(i);
                    it[i].reset(); // ~dlist_node unlinks
                    it[i].reset(new XItem());
                    it[i]->id = i;
                    break;
                case X_LIST_DEATH:
                    if (!m[l].empty()) fault("death_of_nonempty_list");
                    lists[l].reset(); // ~dlist_base pops every node
                    while (!m[l].empty()) unlink_model(m[l].front());
                    lists[l].reset(new XList());
                    break;
                }
                if (done) tr.ev("%s i%d L%d t%d", X_NAME[k], i, l, t);
                check(X_NAME[k]);
            }
            // teardown in mixed order: items first for even runs, lists first for odd ones
            if (ni % 2)
            {
                for (int i = 0; i < ni; i++) { unlink_model(i); it[i].reset(); it[i].reset(new XItem()); it[i]->id = i; check("teardown-items"); }
            }
            else
            {
                for (int l = 0; l < nl; l++) { lists[l].reset(); while (!m[l].empty()) unlink_model(m[l].front()); lists[l].reset(new XList()); check("teardown-lists"); }
            }
            res.nontrivial = max_nonempty >= 2 && moves >= 1 && deaths_linked >= 1;
            return res;
        }
    };

    // ================================================================ slist (C and C++) and hlist
    enum { S_ADD, S_POP, S_XADD, S_XMOVE_FRONT, H_ADD_HEAD, H_ADD_AFTER, H_DEL, H_DEATH, S_DEATH, SH_N };
    const char *SH_NAME[] = {"slist_add", "slist_pop_first", "slist<>::add_first", "slist<>::move_front", "hlist_add_head", "hlist_add_after", "hlist_del", "hlist_item_death",
                             "slist_item_death"};
    struct SHWorld : World
    {
        const char *name() const override { return "slist+hlist"; }
        unsigned weight(Tier) const override { return 2; }
        Plan generate(Rng &r, Tier tier) override
        {
            Plan p;
            int ni = (int)r.range(1, tier == THOROUGH ? 12 : 8), nl = (int)r.range(1, 3);
            p.cfg = {ni, nl};
            int n = (int)r.range(4, tier == THOROUGH ? 100 : 45);
            if (r.chance(1, 40)) n *= 25; // a long history: what only accumulates over hundreds or thousands of operations
            for (int i = 0; i < n; i++) p.ops.push_back({(int64_t)r.below(SH_N), (int64_t)r.below(ni), (int64_t)r.below(nl), (int64_t)r.below(ni)});
            return p;
        }
        std::string describe(const Plan &p) override
        {
            std::string s = "items=" + std::to_string(mod(p.c(0) - 1, 12) + 1) + ":";
            for (auto &o : p.ops) s += std::string(" ") + SH_NAME[mod(arg(o, 0), SH_N)] + "(i" + std::to_string(arg(o, 1)) + ",L" + std::to_string(arg(o, 2)) + ",t" + std::to_string(arg(o, 3)) + ")";
            return s;
        }
        Result execute(const Plan &p, Trace &tr) override
        {
            Result res;
            int ni = (int)mod(p.c(0) - 1, 12) + 1, nl = (int)mod(p.c(1) - 1, 3) + 1;
            typedef igris::slist<SItem, &SItem::sl> XS;
            std::vector<std::unique_ptr<SItem>> it(ni);
            std::vector<std::unique_ptr<slist_head>> sh(nl);
            std::vector<std::unique_ptr<XS>> xs(nl);
            std::vector<std::unique_ptr<hlist_head>> hh(nl);
            // slist: C lists are model lists 0..nl-1, C++ lists nl..2nl-1 ; hlist model separately
            std::vector<std::vector<int>> ms(2 * nl), mh(nl);
            std::vector<int> swhere(ni, -1), hwhere(ni, -1);
            auto fresh = [&](int i) {
                it[i].reset(new SItem());
                it[i]->id = i;
                it[i]->sl.next = &it[i]->sl;
                hlist_node_init(&it[i]->hn);
                it[i]->hn.next = nullptr;
                swhere[i] = hwhere[i] = -1;
            };
            for (int i = 0; i < ni; i++) fresh(i);
            for (int l = 0; l < nl; l++)
            {
                sh[l].reset(new slist_head());
                slist_init(sh[l].get());
                xs[l].reset(new XS());
                hh[l].reset(new hlist_head());
                hlist_head_init(hh[l].get());
            }
            int pops = 0, dels = 0;
            auto sid = [&](slist_head *n) { for (int i = 0; i < ni; i++) if (&it[i]->sl == n) return i; return -1; };
            auto hid = [&](hlist_node *n) { for (int i = 0; i < ni; i++) if (&it[i]->hn == n) return i; return -1; };
            uint64_t sh_tick = 0;
            auto check = [&](const char *when) {
                for (int l = 0; l < nl; l++)
                {
                    std::vector<int> f;
                    slist_head *n;
                    int guard = 0;
                    slist_for_each(n, sh[l].get())
                    {
                        if (++guard > ni + 2) violate("C01/slist-cycle", "%s: slist %d traversal does not end", when, l);
                        f.push_back(sid(n));
                    }
                    if (f != ms[l]) violate("C01/slist-forward", "%s: slist %d yields %s, reference %s", when, l, seq(f).c_str(), seq(ms[l]).c_str());
                    if (slist_size(sh[l].get()) != (int)ms[l].size()) violate("C01/slist-size", "%s: slist_size=%d reference %zu", when, slist_size(sh[l].get()), ms[l].size());
                    if ((slist_empty(sh[l].get()) != 0) != ms[l].empty()) violate("C01/slist-empty", "%s: slist_empty differs", when);
                    SItem *pos;
                    std::vector<int> e;
                    slist_for_each_entry(pos, sh[l].get(), sl) e.push_back(pos->id);
                    if (e != ms[l]) violate("C01/slist-entry", "%s: slist_for_each_entry yields %s, reference %s", when, seq(e).c_str(), seq(ms[l]).c_str());
                    {
                        // the entry loops as statements (if / else without braces, break, continue), in both languages
                        sh_tick++;
                        int cond = (int)(sh_tick % 3 != 0);
                        auto pick = [&](const std::vector<int> &v, uint64_t d, bool none) { return v.empty() || none ? -1 : v[(size_t)(sh_tick / d) % v.size()]; };
                        int stop = pick(ms[l], 4, sh_tick % 4 == 0), skip = pick(ms[l], 5, sh_tick % 5 < 2);
                        if (sh_tick % 2) check_walk("slist_for_each_entry", cxx_walk_sl_entry, sh[l].get(), ms[l], cond, stop, skip, when);
                        else check_walk("slist_for_each_entry (compiled as C)", c01_c_walk_sl_entry, sh[l].get(), ms[l], cond, stop, skip, when);
                        stop = pick(mh[l], 4, sh_tick % 4 == 1), skip = pick(mh[l], 5, sh_tick % 5 >= 3);
                        if (sh_tick % 2) check_walk("hlist_for_each_entry (compiled as C)", c01_c_walk_hl_entry, hh[l].get(), mh[l], cond, stop, skip, when);
                        else check_walk("hlist_for_each_entry", cxx_walk_hl_entry, hh[l].get(), mh[l], cond, stop, skip, when);
                    }
                    {
                        std::vector<int> ce((size_t)ni + 4);
                        int n1 = c01_c_slist_entries(sh[l].get(), ce.data(), ni + 2);
                        if (n1 < 0) violate("C01/slist-cycle", "%s: slist %d traversal compiled as C does not end", when, l);
                        ce.resize((size_t)std::max(n1, 0));
                        if (ce != ms[l]) violate("C01/slist-entry", "%s: compiled as C, slist_for_each_entry yields %s, reference %s", when, seq(ce).c_str(), seq(ms[l]).c_str());
                        for (int i = 0; i < ni; i++)
                            if ((c01_c_slist_in(sh[l].get(), &it[i]->sl) != 0) != (swhere[i] == l)) violate("C01/slist-in", "%s: compiled as C, slist_in(item %d, list %d) differs from the reference", when, i, l);
                    }
                    if (!ms[l].empty())
                    {
                        if (slist_first_entry(sh[l].get(), SItem, sl)->id != ms[l].front()) violate("C01/slist-entry", "%s: slist_first_entry of list %d differs from the reference", when, l);
                        {
                            slist_head *hp = sh[l].get();
                            SItem *e1 = slist_entry(ms[l].size() ? hp->next : hp, SItem, sl);
                            if (e1->id != ms[l].front()) violate("C01/slist-entry", "%s: slist_entry with a conditional pointer expression gives the wrong element", when);
                        }
                        for (size_t q = 0; q + 1 < ms[l].size(); q++)
                            if (slist_next_entry(it[ms[l][q]].get(), sl) != it[ms[l][q + 1]].get() || slist_entry(&it[ms[l][q]]->sl, SItem, sl) != it[ms[l][q]].get())
                                violate("C01/slist-entry", "%s: slist_next_entry after position %zu of list %d differs from the reference", when, q, l);
                    }
                    for (int i = 0; i < ni; i++)
                        if ((slist_in(sh[l].get(), &it[i]->sl) != 0) != (swhere[i] == l)) violate("C01/slist-in", "%s: slist_in(item %d, list %d) differs from the reference", when, i, l);
                    std::vector<int> x;
                    guard = 0;
                    for (auto i = xs[l]->begin(); i != xs[l]->end(); ++i)
                    {
                        if (++guard > ni + 2) violate("C01/slist-cycle", "%s: igris::slist %d iteration does not end", when, l);
                        x.push_back((*i).id);
                    }
                    if (x != ms[nl + l]) violate("C01/cxx-slist-forward", "%s: igris::slist %d yields %s, reference %s", when, l, seq(x).c_str(), seq(ms[nl + l]).c_str());
                    {
                        // post-increment, == and -> walk the same sequence (the const_iterator half of the class does not compile when
                        // instantiated: const begin()/end(), const_iterator::operator++(int); neither do dlist_node::cast_out and
                        // dlist_base::first_entry/last_entry, nor dlist<>::round_left - nobody can call them)
                        std::vector<int> y;
                        guard = 0;
                        for (auto i = xs[l]->begin(); !(i == xs[l]->end()); i++)
                        {
                            if (++guard > ni + 2) violate("C01/slist-cycle", "%s: igris::slist %d post-increment iteration does not end", when, l);
                            y.push_back(i->id);
                        }
                        if (y != ms[nl + l])
                            violate("C01/cxx-slist-forward", "%s: igris::slist %d post-increment iteration yields %s, reference %s", when, l, seq(y).c_str(), seq(ms[nl + l]).c_str());
                    }
                    if (xs[l]->empty() != ms[nl + l].empty()) violate("C01/cxx-slist-empty", "%s: igris::slist::empty differs", when);
                    // hlist
                    std::vector<int> h;
                    hlist_node *hn;
                    hlist_node **link = &hh[l]->first;
                    guard = 0;
                    hlist_for_each(hn, hh[l].get())
                    {
                        if (++guard > ni + 2) violate("C01/hlist-cycle", "%s: hlist %d traversal does not end", when, l);
                        if (hn->pprev != link) violate("C01/hlist-pprev", "%s: pprev of item %d in hlist %d does not point at the pointer that points at it", when, hid(hn), l);
                        link = &hn->next;
                        h.push_back(hid(hn));
                    }
                    if (h != mh[l]) violate("C01/hlist-forward", "%s: hlist %d yields %s, reference %s", when, l, seq(h).c_str(), seq(mh[l]).c_str());
                    if (!mh[l].empty())
                    {
                        if (hlist_first_entry(hh[l].get(), SItem, hn)->id != mh[l].front()) violate("C01/hlist-entry", "%s: hlist_first_entry of list %d differs from the reference", when, l);
                        {
                            // entry-level traversal
                            std::vector<int> he;
                            SItem *hp;
                            int g4 = 0;
                            hlist_for_each_entry(hp, hh[l].get(), hn)
                            {
                                if (++g4 > ni + 2) violate("C01/hlist-cycle", "%s: hlist_for_each_entry on list %d does not end", when, l);
                                he.push_back(hp->id);
                            }
                            if (he != mh[l]) violate("C01/hlist-entry", "%s: hlist_for_each_entry yields %s, reference %s", when, seq(he).c_str(), seq(mh[l]).c_str());
                            std::vector<int> ch((size_t)ni + 4);
                            int n3 = c01_c_hlist_entries(hh[l].get(), ch.data(), ni + 2);
                            if (n3 < 0) violate("C01/hlist-cycle", "%s: hlist_for_each_entry compiled as C does not end on list %d", when, l);
                            ch.resize((size_t)std::max(n3, 0));
                            if (ch != mh[l]) violate("C01/hlist-entry", "%s: compiled as C, hlist_for_each_entry yields %s, reference %s", when, seq(ch).c_str(), seq(mh[l]).c_str());
                        }
                        for (size_t q = 0; q + 1 < mh[l].size(); q++)
                            if (hlist_next_entry(it[mh[l][q]].get(), hn) != it[mh[l][q + 1]].get() || hlist_entry(&it[mh[l][q]]->hn, SItem, hn) != it[mh[l][q]].get())
                                violate("C01/hlist-entry", "%s: hlist_next_entry after position %zu of list %d differs from the reference", when, q, l);
                    }
                }
            };
            check("init");
            for (auto &o : p.ops)
            {
                int k = (int)mod(arg(o, 0), SH_N);
                int i = (int)mod(arg(o, 1), ni), l = (int)mod(arg(o, 2), nl), t = (int)mod(arg(o, 3), ni);
                switch (k)
                {
                case S_ADD:
                    if (swhere[i] >= 0) break;
                    slist_add(&it[i]->sl, sh[l].get());
                    ms[l].insert(ms[l].begin(), i);
                    swhere[i] = l;
                    break;
                case S_POP:
                {
                    if (!ms[l].empty() && (i & 1))
                    {
                        // the entry form of the same operation (only defined for a non-empty list)
                        SItem *e = (l & 1) ? c01_c_slist_pop_first_entry(sh[l].get()) : slist_pop_first_entry(sh[l].get(), SItem, sl);
                        if (e != it[ms[l].front()].get()) violate("C01/slist-pop", "slist_pop_first_entry did not return the first item (%d)", ms[l].front());
                        swhere[ms[l].front()] = -1;
                        ms[l].erase(ms[l].begin());
                        pops++;
                        break;
                    }
                    slist_head *n = slist_pop_first(sh[l].get());
                    if (ms[l].empty())
                    {
                        if (n != nullptr) violate("C01/slist-pop-empty", "slist_pop_first on an empty list returned a node");
                    }
                    else
                    {
                        if (sid(n) != ms[l].front()) violate("C01/slist-pop", "slist_pop_first returned item %d, reference %d", sid(n), ms[l].front());
                        swhere[ms[l].front()] = -1;
                        ms[l].erase(ms[l].begin());
                        pops++;
                    }
                    break;
                }
                case S_XADD:
                case S_XMOVE_FRONT:
                    if (swhere[i] >= 0) break;
                    if (k == S_XADD) xs[l]->add_first(*it[i]);
                    else xs[l]->move_front(*it[i]);
                    ms[nl + l].insert(ms[nl + l].begin(), i);
                    swhere[i] = nl + l;
                    break;
                case H_ADD_HEAD:
                    if (hwhere[i] >= 0) break;
                    hlist_add_next(&it[i]->hn, &hh[l]->first);
                    mh[l].insert(mh[l].begin(), i);
                    hwhere[i] = l;
                    break;
                case H_ADD_AFTER:
                {
                    if (hwhere[i] >= 0 || hwhere[t] < 0 || t == i) break;
                    hlist_add_next(&it[i]->hn, &it[t]->hn.next);
                    auto &v = mh[hwhere[t]];
                    v.insert(std::find(v.begin(), v.end(), t) + 1, i);
                    hwhere[i] = hwhere[t];
                    break;
                }
                case H_DEL:
                    if (hwhere[i] >= 0 && mod(arg(o, 3), 3) == 2)
                    {
                        // the in-place filter: a walk over i's chain deletes every entry of i's parity and goes on behind each of them
                        int L = hwhere[i], nd = 0;
                        std::vector<int> want_del, gone((size_t)ni + 2);
                        for (int id : mh[L]) if ((id & 1) == (i & 1)) want_del.push_back(id);
                        size_t before = mh[L].size();
                        int visited = mod(arg(o, 2), 2) ? cxx_filter_hl(hh[L].get(), i & 1, gone.data(), ni + 1, &nd) : c01_c_filter_hl(hh[L].get(), i & 1, gone.data(), ni + 1, &nd);
                        gone.resize((size_t)std::max(nd, 0));
                        if (visited != (int)before || gone != want_del)
                            violate("C01/hlist-filter", "an in-place filter over a chain of %zu entries (hlist_for_each_entry deleting every entry of one parity) visited %d entries and deleted %s, expected %s", before, visited, seq(gone).c_str(), seq(want_del).c_str());
                        for (int id : want_del) { hlist_node_init(&it[id]->hn); erase_val(mh[L], id); hwhere[id] = -1; dels++; }
                        if (want_del.size() >= 1 && before > want_del.size()) probe("hlist_filtered_in_place");
                        break;
                    }
                    // hlist_del on a node that was never linked / already removed and re-initialised must be harmless
                    if (hwhere[i] < 0) probe("second_removal");
                    hlist_del(&it[i]->hn);
                    hlist_node_init(&it[i]->hn);
                    if (hwhere[i] >= 0) { erase_val(mh[hwhere[i]], i); hwhere[i] = -1; dels++; }
                    break;
                case H_DEATH:
                case S_DEATH:
                    // death of an item: hlist nodes are removed first (caller contract); an slist node can only die unlinked
                    if (swhere[i] >= 0) break;
                    if (hwhere[i] >= 0) { hlist_del(&it[i]->hn); erase_val(mh[hwhere[i]], i); hwhere[i] = -1; fault("death_of_linked_node"); dels++; }
                    fresh(i);
                    break;
                }
                tr.ev("%s i%d L%d t%d", SH_NAME[k], i, l, t);
                check(SH_NAME[k]);
            }
            res.nontrivial = pops >= 1 && dels >= 1;
            return res;
        }
    };

    // ================================================================ one object in several lists at once; long lists
    // A job carries two dlist links and two slist links of the same node types and sits in up to four lists at once
    // (the "all" list, the "ready" list, two singly linked registries). The population is a configuration of the run:
    // a handful of jobs, or more than a thousand.
    struct Job
    {
        int id = 0;
        igris::dlist_node all_lnk;
        long pad = 0;
        igris::dlist_node ready_lnk;
        slist_head s1;
        char pad2[24] = {0};
        slist_head s2;
    };
    enum { J_ALL_BACK, J_ALL_FRONT, J_READY_BACK, J_READY_FRONT, J_ALL_POP, J_READY_POP, J_DEATH, J_BULK, J_S1, J_S2, J_READY_NEXT_OF, J_ALL_PREV_OF, J_N };
    const char *J_NAME[] = {"all.move_back", "all.move_front", "ready.move_back", "ready.move_front", "all.pop", "ready.pop", "job_death", "bulk_enqueue", "registry1.add_first",
                            "registry2.add_first", "ready.move_next(obj,obj)", "all.move_prev(obj,obj)"};
    struct MultiWorld : World
    {
        const char *name() const override { return "cxx-lists-shared-objects"; }
        unsigned weight(Tier) const override { return 2; }
        Plan generate(Rng &r, Tier tier) override
        {
            Plan p;
            bool longrun = r.chance(1, tier == THOROUGH ? 10 : 16);
            int nj = longrun ? (int)r.range(1001, 1200) : (int)r.range(1, 9);
            p.cfg = {nj};
            int n = longrun ? (int)r.range(3, 10) : (int)r.range(4, tier == THOROUGH ? 80 : 40);
            if (longrun) p.ops.push_back({J_BULK, (int64_t)r.below(nj), (int64_t)nj, (int64_t)r.below(3)});
            for (int i = 0; i < n; i++)
            {
                int64_t k = (int64_t)r.below(J_N);
                if (k == J_BULK && !longrun && r.chance(1, 2)) k = J_ALL_BACK;
                p.ops.push_back({k, (int64_t)r.below(nj), k == J_BULK ? (int64_t)r.range(1, longrun ? 1200 : 6) : (int64_t)r.below(nj), (int64_t)r.below(3)});
            }
            return p;
        }
        std::string describe(const Plan &p) override
        {
            std::string s = "jobs=" + std::to_string(mod(p.c(0) - 1, 1500) + 1) + ":";
            for (auto &o : p.ops) s += std::string(" ") + J_NAME[mod(arg(o, 0), J_N)] + "(j" + std::to_string(arg(o, 1)) + "," + std::to_string(arg(o, 2)) + ")";
            return s;
        }
        Result execute(const Plan &p, Trace &tr) override
        {
            Result res;
            int nj = (int)mod(p.c(0) - 1, 1500) + 1;
            typedef igris::dlist<Job, &Job::all_lnk> AllList;
            typedef igris::dlist<Job, &Job::ready_lnk> ReadyList;
            typedef igris::slist<Job, &Job::s1> Reg1;
            typedef igris::slist<Job, &Job::s2> Reg2;
            std::vector<std::unique_ptr<Job>> job(nj);
            auto fresh = [&](int i) {
                job[i].reset(new Job());
                job[i]->id = i;
                job[i]->s1.next = &job[i]->s1;
                job[i]->s2.next = &job[i]->s2;
            };
            for (int i = 0; i < nj; i++) fresh(i);
            // lists are declared after the jobs: they die first
            AllList all;
            ReadyList ready;
            Reg1 reg1;
            Reg2 reg2;
            std::vector<int> mall, mready, m1, m2;
            std::vector<char> in_all(nj, 0), in_ready(nj, 0), in_1(nj, 0), in_2(nj, 0);
            size_t longest = 0;
            int both = 0;
            {
                // records whose links sit far into the object (a large buffer in front of them): the node -> object mapping needs
                // the full offset
                struct BigRec
                {
                    char payload[70000];
                    int id = 0;
                    igris::dlist_node lnk;
                    slist_head sl;
                };
                std::vector<std::unique_ptr<BigRec>> recs;
                igris::dlist<BigRec, &BigRec::lnk> bl;
                igris::slist<BigRec, &BigRec::sl> bs;
                int nb = 2 + nj % 2;
                for (int i = 0; i < nb; i++)
                {
                    recs.emplace_back(new BigRec());
                    recs.back()->id = 100 + i;
                    recs.back()->sl.next = &recs.back()->sl;
                    bl.move_back(*recs.back());
                    bs.add_first(*recs.back());
                }
                int q = 0;
                for (auto &r : bl)
                    if (&r != recs[(size_t)q].get() || r.id != 100 + q++) violate("C01/cxx-dlist-cast", "a dlist over records with the link 70000 bytes into the object yields the wrong objects");
                if (q != nb || &bl.front() != recs.front().get() || &bl.back() != recs.back().get()) violate("C01/cxx-dlist-cast", "front()/back() of a dlist over large records give the wrong objects");
                q = nb;
                for (auto i = bs.begin(); i != bs.end(); ++i)
                    if (&*i != recs[(size_t)--q].get()) violate("C01/cxx-slist-cast", "an slist over records with the link 70000 bytes into the object yields the wrong objects");
                probe("link_far_into_the_object");
                // (the lists die before the records)
                bl.clear();
            }
            {
                // elements with an alignment above that of the links (alignas(16)), sorted inserts through
                // move_prev(obj, iterator) where the iterator may be end(); two list heads at different offsets modulo 16
                struct alignas(16) Wide
                {
                    long double weight = 0;
                    int id = 0;
                    igris::dlist_node lnk;
                };
                struct alignas(16) Heads
                {
                    igris::dlist<Wide, &Wide::lnk> a;
                    char pad[8];
                    igris::dlist<Wide, &Wide::lnk> b;
                };
                std::vector<std::unique_ptr<Wide>> ws;
                std::unique_ptr<Heads> heads(new Heads());
                std::vector<int> ra, rb;
                int nw = 3 + nj % 3;
                for (int i = 0; i < nw; i++)
                {
                    ws.emplace_back(new Wide());
                    ws.back()->id = (i * 7 + nj) % 10;
                }
                for (int pass = 0; pass < 2; pass++)
                {
                    auto &L = pass ? heads->b : heads->a;
                    auto &R = pass ? rb : ra;
                    for (int i = 0; i < nw; i++)
                    {
                        Wide &w = *ws[(size_t)i];
                        int key = w.id;
                        auto it = std::find_if(L.begin(), L.end(), [&](Wide &x) { return key < x.id; });
                        L.move_prev(w, it);
                        R.insert(std::upper_bound(R.begin(), R.end(), key), key);
                        std::vector<int> got;
                        int g5 = 0;
                        for (auto &x : L)
                        {
                            if (++g5 > nw + 2) violate("C01/cxx-dlist-cycle", "sorted insert into a list of 16-byte aligned elements: iteration does not end");
                            got.push_back(x.id);
                        }
                        if (got != R || L.size() != R.size()) violate("C01/cxx-dlist-forward", "sorted inserts (move_prev with the iterator find_if returned) into a list of 16-byte aligned elements give %s, reference %s", seq(got).c_str(), seq(R).c_str());
                    }
                    L.clear();
                }
                probe("over_aligned_elements_sorted_insert");
            }
            if (nj > 1000) probe("population_over_1000");
            if (nj > 1000)
            {
                // a long C list just below the documented walk limit of dlist_is_correct (1000 steps): 997..999 entries are
                // still a correct list
                int k = 997 + nj % 3;
                std::vector<dlist_head> nodes((size_t)k);
                dlist_head lh;
                dlist_init(&lh);
                for (int i = 0; i < k; i++)
                {
                    dlist_init(&nodes[(size_t)i]);
                    if (i & 1) dlist_add_tail(&nodes[(size_t)i], &lh);
                    else dlist_add(&nodes[(size_t)i], &lh);
                }
                if (dlist_size(&lh) != k || dlist_size_reversed(&lh) != k || dlist_check(&lh, k + 1) != k || dlist_check(&lh, k) != -1 || dlist_check_reversed(&lh, k + 1) != k)
                    violate("C01/c-dlist-check", "a C list of %d entries: size %d / %d, dlist_check at the exact bound %d", k, dlist_size(&lh), dlist_size_reversed(&lh), dlist_check(&lh, k + 1));
                if (!dlist_is_correct(&lh)) violate("C01/c-dlist-is_correct", "dlist_is_correct is false for a well-formed C list of %d entries", k);
                probe("c_list_just_below_walk_limit");
            }
            auto check = [&](const char *when) {
                std::vector<int> f, b;
                size_t guard = 0;
                for (auto i = all.begin(); i != all.end(); ++i)
                {
                    if (++guard > (size_t)nj + 2) violate("C01/cxx-dlist-cycle", "%s: forward iteration of the all-list does not end", when);
                    Job *j = &*i;
                    if (&j->all_lnk != i.current) violate("C01/cxx-dlist-cast", "%s: all-list iterator dereference does not give the object that contains the node", when);
                    f.push_back(j->id);
                }
                if (f != mall) violate("C01/cxx-dlist-forward", "%s: all-list forward differs from the reference (%zu vs %zu elements; first %s)", when, f.size(), mall.size(), seq(std::vector<int>(f.begin(), f.begin() + std::min<size_t>(f.size(), 8))).c_str());
                guard = 0;
                for (auto i = all.rbegin(); i != all.rend(); ++i)
                {
                    if (++guard > (size_t)nj + 2) violate("C01/cxx-dlist-cycle", "%s: reverse iteration of the all-list does not end", when);
                    b.push_back((*i).id);
                }
                std::reverse(b.begin(), b.end());
                if (b != mall) violate("C01/cxx-dlist-backward", "%s: all-list backward (reversed) differs from the reference", when);
                f.clear();
                b.clear();
                guard = 0;
                for (auto i = ready.begin(); i != ready.end(); ++i)
                {
                    if (++guard > (size_t)nj + 2) violate("C01/cxx-dlist-cycle", "%s: forward iteration of the ready-list does not end", when);
                    Job *j = &*i;
                    if (&j->ready_lnk != i.current) violate("C01/cxx-dlist-cast", "%s: ready-list iterator dereference does not give the object that contains the node", when);
                    f.push_back(j->id);
                }
                if (f != mready) violate("C01/cxx-dlist-forward", "%s: ready-list forward differs from the reference (%zu vs %zu elements)", when, f.size(), mready.size());
                guard = 0;
                for (auto i = ready.rbegin(); i != ready.rend(); ++i)
                {
                    if (++guard > (size_t)nj + 2) violate("C01/cxx-dlist-cycle", "%s: reverse iteration of the ready-list does not end", when);
                    b.push_back((*i).id);
                }
                std::reverse(b.begin(), b.end());
                if (b != mready) violate("C01/cxx-dlist-backward", "%s: ready-list backward (reversed) differs from the reference", when);
                if (all.size() != mall.size() || ready.size() != mready.size())
                    violate("C01/cxx-dlist-size", "%s: size() = %zu / %zu, the reference lists hold %zu / %zu", when, all.size(), ready.size(), mall.size(), mready.size());
                if (all.empty() != mall.empty() || ready.empty() != mready.empty()) violate("C01/cxx-dlist-empty", "%s: empty() differs from the reference", when);
                if (!all.is_correct() || !ready.is_correct()) violate("C01/cxx-dlist-is_correct", "%s: is_correct() is false for a well-formed list of %zu / %zu elements", when, mall.size(), mready.size());
                if (!mall.empty() && (all.front().id != mall.front() || all.first().id != mall.front() || all.back().id != mall.back()))
                    violate("C01/cxx-dlist-front-back", "%s: all-list front/back differ from the reference", when);
                if (!mready.empty() && (ready.front().id != mready.front() || ready.first().id != mready.front() || ready.back().id != mready.back()))
                    violate("C01/cxx-dlist-front-back", "%s: ready-list front/back differ from the reference", when);
                std::vector<int> x;
                guard = 0;
                for (auto i = reg1.begin(); i != reg1.end(); ++i)
                {
                    if (++guard > (size_t)nj + 2) violate("C01/slist-cycle", "%s: registry 1 iteration does not end", when);
                    if (&(*i).s1 != i.current) violate("C01/cxx-slist-cast", "%s: registry 1 iterator dereference does not give the containing object", when);
                    x.push_back((*i).id);
                }
                if (x != m1) violate("C01/cxx-slist-forward", "%s: registry 1 yields %s, reference %s", when, seq(x).c_str(), seq(m1).c_str());
                x.clear();
                guard = 0;
                for (auto i = reg2.begin(); i != reg2.end(); ++i)
                {
                    if (++guard > (size_t)nj + 2) violate("C01/slist-cycle", "%s: registry 2 iteration does not end", when);
                    if (&(*i).s2 != i.current) violate("C01/cxx-slist-cast", "%s: registry 2 iterator dereference does not give the containing object", when);
                    x.push_back((*i).id);
                }
                if (x != m2) violate("C01/cxx-slist-forward", "%s: registry 2 yields %s, reference %s", when, seq(x).c_str(), seq(m2).c_str());
                for (int i = 0; i < std::min(nj, 12); i++)
                    if (job[i]->all_lnk.is_linked() != (bool)in_all[i] || job[i]->ready_lnk.is_linked() != (bool)in_ready[i])
                        violate("C01/cxx-dlist-is_linked", "%s: job %d is_linked() = %d/%d, reference %d/%d", when, i, (int)job[i]->all_lnk.is_linked(), (int)job[i]->ready_lnk.is_linked(), (int)in_all[i], (int)in_ready[i]);
                longest = std::max(longest, std::max(mall.size(), mready.size()));
                if (mall.size() > 1000 || mready.size() > 1000) probe("list_longer_than_1000");
            };
            auto put = [&](std::vector<int> &m, std::vector<char> &in, int i, bool front) {
                if (in[i]) erase_val(m, i);
                if (front) m.insert(m.begin(), i);
                else m.push_back(i);
                in[i] = 1;
            };
            check("init");
            for (auto &o : p.ops)
            {
                int k = (int)mod(arg(o, 0), J_N);
                int i = (int)mod(arg(o, 1), nj), t = (int)mod(arg(o, 2), nj);
                Job &j = *job[i];
                switch (k)
                {
                case J_ALL_BACK: all.move_back(j); put(mall, in_all, i, false); break;
                case J_ALL_FRONT: all.move_front(j); put(mall, in_all, i, true); break;
                case J_READY_BACK: ready.move_back(j); put(mready, in_ready, i, false); break;
                case J_READY_FRONT: ready.move_front(j); put(mready, in_ready, i, true); break;
                case J_ALL_POP:
                    all.pop(j);
                    if (in_all[i]) { erase_val(mall, i); in_all[i] = 0; }
                    break;
                case J_READY_POP:
                    ready.pop(j);
                    if (in_ready[i]) { erase_val(mready, i); in_ready[i] = 0; }
                    break;
                case J_DEATH:
                    if (in_1[i] || in_2[i]) break; // an slist node can only die unlinked
                    if (in_all[i] || in_ready[i]) fault("death_of_linked_node");
                    if (in_all[i]) { erase_val(mall, i); in_all[i] = 0; }
                    if (in_ready[i]) { erase_val(mready, i); in_ready[i] = 0; }
                    fresh(i);
                    break;
                case J_BULK:
                {
                    // a burst of arrivals: jobs i, i+1, ... join the all-list, and (mode) every / every second / no one the ready-list
                    int cnt = (int)mod(arg(o, 2) - 1, 1500) + 1, mode = (int)mod(arg(o, 3), 3);
                    cnt = std::min(cnt, nj);
                    for (int q = 0; q < cnt; q++)
                    {
                        int x = (i + q) % nj;
                        all.move_back(*job[x]);
                        put(mall, in_all, x, false);
                        if (mode == 0 || (mode == 1 && q % 2 == 0))
                        {
                            ready.move_back(*job[x]);
                            put(mready, in_ready, x, false);
                        }
                    }
                    break;
                }
                case J_S1:
                    if (in_1[i]) break;
                    reg1.add_first(j);
                    m1.insert(m1.begin(), i);
                    in_1[i] = 1;
                    break;
                case J_S2:
                    if (in_2[i]) break;
                    reg2.add_first(j);
                    m2.insert(m2.begin(), i);
                    in_2[i] = 1;
                    break;
                case J_READY_NEXT_OF:
                case J_ALL_PREV_OF:
                {
                    std::vector<int> &m = k == J_READY_NEXT_OF ? mready : mall;
                    std::vector<char> &in = k == J_READY_NEXT_OF ? in_ready : in_all;
                    if (t == i || !in[t]) break;
                    if (k == J_READY_NEXT_OF) ready.move_next(j, *job[t]);
                    else all.move_prev(j, *job[t]);
                    if (in[i]) erase_val(m, i);
                    auto pos = std::find(m.begin(), m.end(), t);
                    m.insert(k == J_READY_NEXT_OF ? pos + 1 : pos, i);
                    in[i] = 1;
                    break;
                }
                }
                if (in_all[i] && in_ready[i]) { both++; probe("object_in_two_dlists"); }
                if (in_1[i] && in_2[i]) probe("object_in_two_slists");
                tr.ev("%s j%d %d -> %zu/%zu", J_NAME[k], i, t, mall.size(), mready.size());
                check(J_NAME[k]);
            }
            res.nontrivial = both >= 1 && longest >= 2;
            return res;
        }
    };
}

namespace
{
    // ================================================================ one ring seen through both dlist APIs
    // The way igris' own semaphore does it: the head is a C `struct dlist_head` (dlist_init, dlist_empty, dlist_del_init of
    // head.next), the same head handed to C++ code as igris::dlist_base* (move_back / move_front of igris::dlist_node members
    // of the waiters, unlink, the waiters' destructors). Both views must describe one and the same ring.
    // ops: [0 park-back w] [1 park-front w] [2 unlink w (C++)] [3 C: dlist_del_init(head.next)] [4 C: dlist_del_init(head.prev)]
    //      [5 waiter dies]
    struct TwoViewsWorld : World
    {
        const char *name() const override { return "c-head-with-cxx-nodes (semaphore-style wait list)"; }
        unsigned weight(Tier) const override { return 1; }
        Plan generate(Rng &r, Tier tier) override
        {
            Plan p;
            p.cfg = {(int64_t)r.range(1, 6)};
            int n = (int)r.range(3, tier == THOROUGH ? 60 : 30);
            for (int i = 0; i < n; i++) p.ops.push_back({r.chance(1, 2) ? (int64_t)r.below(2) : (int64_t)r.below(6), (int64_t)r.below(6)});
            return p;
        }
        std::string describe(const Plan &p) override
        {
            static const char *nm[] = {"park_back", "park_front", "unlink", "c_del_first", "c_del_last", "waiter_dies"};
            std::string s = "waiters=" + std::to_string(mod(p.c(0) - 1, 6) + 1) + ":";
            for (auto &o : p.ops) s += std::string(" ") + nm[mod(arg(o, 0), 6)] + "(" + std::to_string(arg(o, 1)) + ")";
            return s;
        }
        struct Waiter
        {
            int id;
            igris::dlist_node lnk;
        };
        Result execute(const Plan &p, Trace &tr) override
        {
            Result res;
            int nw = (int)mod(p.c(0) - 1, 6) + 1;
            std::unique_ptr<struct dlist_head> head(new struct dlist_head);
            dlist_init(head.get());
            igris::dlist_base *xhead = reinterpret_cast<igris::dlist_base *>(head.get());
            std::vector<std::unique_ptr<Waiter>> w;
            for (int i = 0; i < nw; i++) { w.emplace_back(new Waiter()); w.back()->id = i; }
            std::vector<int> m; // ids in ring order, front first
            auto id_of = [&](void *node) -> int {
                for (int i = 0; i < nw; i++)
                    if (w[i] && (void *)&w[i]->lnk == node) return i;
                return -1;
            };
            auto check = [&](const char *when) {
                // the C view: forward and backward walk over raw links, emptiness
                std::vector<int> fwd, bwd;
                int guard = 0;
                for (struct dlist_head *it = head->next; it != head.get() && guard++ < 100; it = it->next) fwd.push_back(id_of(it));
                guard = 0;
                for (struct dlist_head *it = head->prev; it != head.get() && guard++ < 100; it = it->prev) bwd.push_back(id_of(it));
                std::vector<int> rev(m.rbegin(), m.rend());
                if (fwd != m) violate("C01/two-views-forward", "%s: the C view walks %s forward, the waiters were parked as %s", when, seq(fwd).c_str(), seq(m).c_str());
                if (bwd != rev) violate("C01/two-views-backward", "%s: the C view walks %s backward, expected %s", when, seq(bwd).c_str(), seq(rev).c_str());
                if ((dlist_empty(head.get()) != 0) != m.empty()) violate("C01/two-views-empty", "%s: dlist_empty() of the C view says %d, %zu waiters are parked", when, dlist_empty(head.get()), m.size());
                // the C++ view
                if (xhead->empty() != m.empty() || (size_t)xhead->size() != m.size()) violate("C01/two-views-size", "%s: the C++ view reports size %d / empty %d for %zu parked waiters", when, (int)xhead->size(), (int)xhead->empty(), m.size());
                for (int i = 0; i < nw; i++)
                    if (w[i] && w[i]->lnk.is_linked() != (std::find(m.begin(), m.end(), i) != m.end()))
                        violate("C01/two-views-is_linked", "%s: waiter %d is_linked()=%d, the model says %d", when, i, (int)w[i]->lnk.is_linked(), (int)!w[i]->lnk.is_linked());
            };
            check("init");
            size_t longest = 0;
            bool mixed = false;
            for (auto &o : p.ops)
            {
                int k = (int)mod(arg(o, 0), 6), i = (int)mod(arg(o, 1), nw);
                switch (k)
                {
                case 0:
                case 1:
                    if (!w[i]) { w[i].reset(new Waiter()); w[i]->id = i; }
                    if (k == 0) xhead->move_back(w[i]->lnk);
                    else xhead->move_front(w[i]->lnk);
                    erase_val(m, i);
                    if (k == 0) m.push_back(i);
                    else m.insert(m.begin(), i);
                    break;
                case 2:
                    if (!w[i]) break;
                    w[i]->lnk.unlink();
                    erase_val(m, i);
                    break;
                case 3:
                case 4:
                    if (m.empty()) break;
                    dlist_del_init(k == 3 ? head->next : head->prev);
                    if (k == 3) m.erase(m.begin());
                    else m.pop_back();
                    if (m.size() >= 1) mixed = true;
                    break;
                case 5:
                    if (!w[i]) break;
                    w[i].reset(); // ~dlist_node unlinks
                    erase_val(m, i);
                    break;
                }
                longest = std::max(longest, m.size());
                tr.ev("op %d w%d -> %zu", k, i, m.size());
                check("after-op");
            }
            if (longest >= 2) probe("c_head_with_two_or_more_cxx_nodes");
            // the waiters die while parked; the C head goes last
            for (int i = 0; i < nw; i++) { if (w[i]) { w[i].reset(); erase_val(m, i); check("teardown"); } }
            res.nontrivial = mixed && longest >= 2;
            return res;
        }
    };
}

int main(int argc, char **argv)
{
    CDlistWorld cw;
    XDlistWorld xw;
    SHWorld sw;
    MultiWorld mw;
    Harness h;
    h.property = "C01";
    TwoViewsWorld tv;
    h.worlds = {&cw, &xw, &sw, &mw, &tv};
    h.real = {"igris/datastruct/dlist.h", "igris/container/dlist.h + dlist.cpp", "igris/datastruct/slist.h", "igris/container/slist.h", "igris/datastruct/hlist.h",
              "igris/util/member.h", "igris/util/memberxx.h"};
    h.stub = {"client tasks (op-level interleaving from the plan) including node and list death", "reference lists (std::vector of item ids)"};
    return harness_main(h, argc, argv);
}
KIT_ASAN_OPTIONS()
