// C10 threaded heap configuration: the program-under-test TU (compiled with -fsanitize=thread instrumentation like the
// heap itself, so the simulator's happens-before detector sees every access to the arena, the free list and the blocks).
#include <cstddef>
extern "C"
{
    void *lin_malloc(size_t);
    void lin_free(void *);
    void *lin_realloc(void *, size_t);

    static inline unsigned char tpat(int tag, size_t i) { return (unsigned char)((tag * 131 + (int)i * 7) | 1); }
    void *tprog_malloc(size_t n) { return lin_malloc(n); }
    void tprog_free(void *p) { lin_free(p); }
    void *tprog_realloc(void *p, size_t n) { return lin_realloc(p, n); }
    void tprog_fill(char *p, size_t n, int tag)
    {
        for (size_t i = 0; i < n; i++) p[i] = (char)tpat(tag, i);
    }
    long tprog_verify(const char *p, size_t n, int tag)
    {
        for (size_t i = 0; i < n; i++)
            if ((unsigned char)p[i] != tpat(tag, i)) return (long)i;
        return -1;
    }
}
