// C09: reference layout encoder, value generator and equality for the compiled-in type family (shared by the two API
// translation units; the two igris serialisation APIs cannot be included together).
// Layout rule (the property's wire format): scalar = fixed-width native-endian image; string = u16 length + bytes;
// vector / map = u16 count + elements (map: key then value, in key order); pair / tuple / reflectable struct = members in order.
#pragma once
#include "../sim/kit.h"
#include <cstring>
#include <limits>
#include <map>
#include <string>
#include <tuple>
#include <vector>
#include <type_traits>

namespace c09
{
    struct GenCfg
    {
        size_t max_str = 12;   // typical string length bound
        size_t max_elems = 5;  // typical container size bound
        bool big = false;      // allow one big leaf (up to 65535) - thorough tier / boundary probes
        int depth = 0;
        bool specials = false; // floating point: NaN, infinities, -0.0, denormal, max among the values
    };

    template <class T, class = void> struct Ref;

    template <class T> struct Ref<T, std::enable_if_t<std::is_arithmetic<T>::value>>
    {
        static T gen(kit::Rng &r, GenCfg &c)
        {
            // boundary-biased bit patterns
            uint64_t bits;
            switch (r.below(6))
            {
            case 0: bits = 0; break;
            case 1: bits = ~0ull; break;
            case 2: bits = 1ull << r.below(64); break;
            case 3: bits = r.below(256); break;
            default: bits = r.next(); break;
            }
            T v;
            if (std::is_floating_point<T>::value)
            {
                double d = r.chance(1, 4) ? 0.0 : (double)(int64_t)(bits % 2000001) / 8.0 - 125000.0; // exactly representable
                v = (T)d;
                if (c.specials && r.chance(1, 8)) // (off for the golden cases: their values were drawn without this choice)
                {
                    // special values: the wire image is the object image, so they round-trip bit for bit (eq compares images first)
                    switch (r.below(7))
                    {
                    case 0: v = std::numeric_limits<T>::quiet_NaN(); break;
                    case 1: v = -std::numeric_limits<T>::quiet_NaN(); break;
                    case 2: v = std::numeric_limits<T>::infinity(); break;
                    case 3: v = -std::numeric_limits<T>::infinity(); break;
                    case 4: v = (T)-0.0; break;
                    case 5: v = std::numeric_limits<T>::denorm_min(); break;
                    default: v = std::numeric_limits<T>::max(); break;
                    }
                }
            }
            else if (std::is_same<T, bool>::value)
                v = (T)(bits & 1);
            else
                memcpy(&v, &bits, sizeof v);
            return v;
        }
        static void enc(const T &v, std::string &out) { out.append((const char *)&v, sizeof v); }
        static bool eq(const T &a, const T &b) { return memcmp(&a, &b, sizeof a) == 0 || a == b; }
        static bool is_container() { return false; }
        static std::string show(const T &v) { return std::to_string((long double)v); }
    };

    // long double: 10 significant bytes in a 16-byte image; the 6 padding bytes of an object are indeterminate, so the
    // canonical form has them zeroed (the API policies zero them in what the writer produced, after checking the width)
    template <> struct Ref<long double>
    {
        static long double gen(kit::Rng &r, GenCfg &)
        {
            return (long double)(int64_t)(r.next() % 2000001) / 8.0L - 125000.0L;
        }
        static void enc(const long double &v, std::string &out)
        {
            char img[sizeof(long double)];
            memset(img, 0, sizeof img);
            memcpy(img, &v, 10);
            out.append(img, sizeof img);
        }
        static bool eq(const long double &a, const long double &b) { return a == b; }
        static bool is_container() { return false; }
        static std::string show(const long double &v) { return std::to_string(v); }
    };
    static_assert(sizeof(long double) == 16, "x86-64 long double expected");
    // zeroes the padding of the long double image at the end of `bytes` (after checking that a full image is there)
    static inline void normalise_long_double_tail(std::string &bytes, size_t before, const char *who)
    {
        if (bytes.size() - before != sizeof(long double))
            kit::violate(std::string("C09/layout@") + who + ":long double", "a long double is written as %zu bytes, its fixed-width image has %zu", bytes.size() - before, sizeof(long double));
        for (size_t i = before + 10; i < before + 16; i++) bytes[i] = 0;
    }

    template <> struct Ref<std::string>
    {
        static std::string gen(kit::Rng &r, GenCfg &c)
        {
            size_t n = r.chance(1, 6) ? 0 : r.below(c.max_str + 1);
            if (c.big && r.chance(1, 3)) { n = r.chance(1, 2) ? 65535 : 256 + r.below(65000); c.big = false; }
            std::string s;
            for (size_t i = 0; i < n; i++) s.push_back(r.chance(1, 8) ? '\0' : (char)r.below(256)); // embedded NULs
            return s;
        }
        static void enc(const std::string &v, std::string &out)
        {
            uint16_t n = (uint16_t)v.size();
            out.append((const char *)&n, 2);
            out.append(v);
        }
        static bool eq(const std::string &a, const std::string &b) { return a == b; }
        static bool is_container() { return true; }
        static std::string show(const std::string &v) { return "str[" + std::to_string(v.size()) + "]"; }
    };

    template <class T> struct Ref<std::vector<T>>
    {
        static std::vector<T> gen(kit::Rng &r, GenCfg &c)
        {
            size_t n = r.chance(1, 6) ? 0 : r.below(c.max_elems + 1);
            if (c.big && std::is_arithmetic<T>::value && r.chance(1, 2)) { n = r.chance(1, 2) ? 65535 : 256 + r.below(65000); c.big = false; }
            // containers of non-scalar elements get past 255 entries now and then (both bytes of the count matter)
            if (c.big && !std::is_arithmetic<T>::value && c.depth == 0 && r.chance(1, 2)) { n = 256 + r.below(120); c.big = false; }
            std::vector<T> v;
            c.depth++;
            for (size_t i = 0; i < n; i++) v.push_back(Ref<T>::gen(r, c));
            c.depth--;
            return v;
        }
        static void enc(const std::vector<T> &v, std::string &out)
        {
            uint16_t n = (uint16_t)v.size();
            out.append((const char *)&n, 2);
            for (auto &e : v) Ref<T>::enc(e, out);
        }
        static bool eq(const std::vector<T> &a, const std::vector<T> &b)
        {
            if (a.size() != b.size()) return false;
            for (size_t i = 0; i < a.size(); i++)
                if (!Ref<T>::eq(a[i], b[i])) return false;
            return true;
        }
        static bool is_container() { return true; }
        static std::string show(const std::vector<T> &v) { return "vec[" + std::to_string(v.size()) + "]"; }
    };

    template <class A, class B> struct Ref<std::pair<A, B>>
    {
        static std::pair<A, B> gen(kit::Rng &r, GenCfg &c)
        {
            A a = Ref<A>::gen(r, c);
            B b = Ref<B>::gen(r, c);
            return {a, b};
        }
        static void enc(const std::pair<A, B> &v, std::string &out)
        {
            Ref<std::remove_const_t<A>>::enc(v.first, out);
            Ref<B>::enc(v.second, out);
        }
        static bool eq(const std::pair<A, B> &a, const std::pair<A, B> &b) { return Ref<A>::eq(a.first, b.first) && Ref<B>::eq(a.second, b.second); }
        static bool is_container() { return Ref<A>::is_container() || Ref<B>::is_container(); }
        static std::string show(const std::pair<A, B> &) { return "pair"; }
    };

    template <class... Ts> struct Ref<std::tuple<Ts...>>
    {
        typedef std::tuple<Ts...> Tup;
        template <size_t... I> static Tup gen_i(kit::Rng &r, GenCfg &c, std::index_sequence<I...>)
        {
            Tup t;
            int dummy[] = {(std::get<I>(t) = Ref<std::tuple_element_t<I, Tup>>::gen(r, c), 0)...};
            (void)dummy;
            return t;
        }
        static Tup gen(kit::Rng &r, GenCfg &c) { return gen_i(r, c, std::index_sequence_for<Ts...>{}); }
        template <size_t... I> static void enc_i(const Tup &t, std::string &out, std::index_sequence<I...>)
        {
            int dummy[] = {(Ref<std::tuple_element_t<I, Tup>>::enc(std::get<I>(t), out), 0)...};
            (void)dummy;
        }
        static void enc(const Tup &t, std::string &out) { enc_i(t, out, std::index_sequence_for<Ts...>{}); }
        template <size_t... I> static bool eq_i(const Tup &a, const Tup &b, std::index_sequence<I...>)
        {
            bool ok = true;
            int dummy[] = {(ok = ok && Ref<std::tuple_element_t<I, Tup>>::eq(std::get<I>(a), std::get<I>(b)), 0)...};
            (void)dummy;
            return ok;
        }
        static bool eq(const Tup &a, const Tup &b) { return eq_i(a, b, std::index_sequence_for<Ts...>{}); }
        static bool is_container() { return true; }
        static std::string show(const Tup &) { return "tuple"; }
    };

    template <class K, class V> struct Ref<std::map<K, V>>
    {
        static std::map<K, V> gen(kit::Rng &r, GenCfg &c)
        {
            size_t n = r.chance(1, 6) ? 0 : r.below(c.max_elems + 1);
            bool many = c.big && c.depth == 0 && r.chance(1, 2);
            if (many) { n = 300 + r.below(100); c.big = false; }
            std::map<K, V> m;
            c.depth++;
            for (size_t i = 0; i < n; i++)
            {
                K k = Ref<K>::gen(r, c);
                if (many && std::is_arithmetic<K>::value) { uint64_t bits = i * 2654435761ull; memcpy(&k, &bits, sizeof k < 8 ? sizeof k : 8); }
                m[k] = Ref<V>::gen(r, c);
            }
            c.depth--;
            return m;
        }
        static void enc(const std::map<K, V> &m, std::string &out)
        {
            uint16_t n = (uint16_t)m.size();
            out.append((const char *)&n, 2);
            for (auto &kv : m)
            {
                Ref<K>::enc(kv.first, out);
                Ref<V>::enc(kv.second, out);
            }
        }
        static bool eq(const std::map<K, V> &a, const std::map<K, V> &b)
        {
            if (a.size() != b.size()) return false;
            auto i = a.begin();
            auto j = b.begin();
            for (; i != a.end(); ++i, ++j)
                if (!Ref<K>::eq(i->first, j->first) || !Ref<V>::eq(i->second, j->second)) return false;
            return true;
        }
        static bool is_container() { return true; }
        static std::string show(const std::map<K, V> &m) { return "map[" + std::to_string(m.size()) + "]"; }
    };

    static inline std::string hexs(const std::string &s, size_t max = 48)
    {
        std::string o;
        char t[4];
        for (size_t i = 0; i < s.size() && i < max; i++) { snprintf(t, sizeof t, "%02x", (unsigned char)s[i]); o += t; }
        if (s.size() > max) o += "..(" + std::to_string(s.size()) + " bytes)";
        return o;
    }

    // one item of a stream: which type of the family, and the seed its value is generated from
    struct Item
    {
        int type;
        uint64_t seed;
        bool big;
    };
    struct StreamReport
    {
        std::string encoded;             // what the real writer produced for the whole stream
        std::vector<size_t> boundaries;  // offset after each value
        bool has_container = false, empty_container = false, len_65535 = false, nested3 = false, nontrivial_elem = false, payload_64k = false, count_over_255 = false;
    };

    // stack scribbling: makes "decoded value depends on uninitialised memory" deterministic and visible
    __attribute__((noinline)) static void scribble(unsigned char pat)
    {
        volatile unsigned char buf[24000];
        for (size_t i = 0; i < sizeof buf; i++) buf[i] = pat;
        asm volatile("" ::: "memory");
    }
}
