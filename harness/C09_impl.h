// C09: API-independent part of the two API translation units. P is the policy describing the real writer/reader.
#pragma once
#include "C09_iface.h"
#include <functional>
#include <memory>

namespace c09
{
    template <class P> struct Entry
    {
        const char *name;
        int depth;
        bool nontrivial_elem;
        std::function<void(typename P::W &, const Item &, GenCfg, std::string &, StreamReport &)> put;
        // returns the canonical (layout rule) form of what was decoded
        std::function<std::string(typename P::R &, const Item &, GenCfg, bool must_equal, size_t idx)> get;
    };

    template <class T> static void note_flags(const T &, StreamReport &) {}
    static inline void note_flags(const std::string &s, StreamReport &rep)
    {
        if (s.empty()) rep.empty_container = true;
        if (s.size() == 65535) rep.len_65535 = true;
    }
    template <class T> static void note_flags(const std::vector<T> &v, StreamReport &rep)
    {
        if (v.empty()) rep.empty_container = true;
        if (v.size() == 65535) rep.len_65535 = true;
        if (v.size() * sizeof(T) >= 65536) rep.payload_64k = true;
        if (v.size() >= 256 && !std::is_arithmetic<T>::value) rep.count_over_255 = true;
    }
    template <class K, class V> static void note_flags(const std::map<K, V> &m, StreamReport &rep)
    {
        if (m.empty()) rep.empty_container = true;
        if (m.size() >= 256) rep.count_over_255 = true;
    }

    template <class P, class T> Entry<P> make_entry(const char *name, int depth, bool nontrivial_elem)
    {
        Entry<P> e;
        e.name = name;
        e.depth = depth;
        e.nontrivial_elem = nontrivial_elem;
        e.put = [name, depth, nontrivial_elem](typename P::W &w, const Item &it, GenCfg cfg, std::string &ref, StreamReport &rep) {
            kit::Rng r(it.seed);
            cfg.big = it.big;
            T v = Ref<T>::gen(r, cfg);
            P::template put<T>(w, v);
            Ref<T>::enc(v, ref);
            if (Ref<T>::is_container()) rep.has_container = true;
            if (depth >= 3) rep.nested3 = true;
            if (nontrivial_elem) rep.nontrivial_elem = true;
            note_flags(v, rep);
        };
        e.get = [name](typename P::R &rd, const Item &it, GenCfg cfg, bool must_equal, size_t idx) -> std::string {
            kit::Rng r(it.seed);
            cfg.big = it.big;
            T want = Ref<T>::gen(r, cfg);
            T got = T();
            P::template get<T>(rd, got);
            if (must_equal && !Ref<T>::eq(want, got))
            {
                std::string a, b;
                Ref<T>::enc(want, a);
                Ref<T>::enc(got, b);
                kit::violate(std::string("C09/roundtrip@") + P::apiname() + ":" + name, "value #%zu of type %s decodes to something else: original encodes as %s, decoded value re-encodes as %s",
                             idx, name, hexs(a).c_str(), hexs(b).c_str());
            }
            std::string canon;
            Ref<T>::enc(got, canon);
            return canon;
        };
        return e;
    }

    template <class P> struct ApiImpl : Api
    {
        std::vector<Entry<P>> types;
        const char *name() override { return P::apiname(); }
        int ntypes() override { return (int)types.size(); }
        const char *tname(int t) override { return types[(size_t)kit::mod(t, (int64_t)types.size())].name; }
        bool bounded_reader() override { return P::bounded; }
        Entry<P> &ent(const Item &it) { return types[(size_t)kit::mod(it.type, (int64_t)types.size())]; }

        void roundtrip(const std::vector<Item> &items, const GenCfg &cfg, StreamReport &rep) override
        {
            std::string ref;
            rep.boundaries.clear();
            {
                typename P::WHolder wh;
                for (auto &it : items)
                {
                    size_t before = ref.size();
                    ent(it).put(wh.w(), it, cfg, ref, rep);
                    rep.boundaries.push_back(ref.size());
                    // the writer must have produced exactly the layout-rule bytes of this value
                    const std::string &sofar = wh.bytes();
                    if (sofar.size() != ref.size() || memcmp(sofar.data() + before, ref.data() + before, ref.size() - before) != 0)
                    {
                        std::string got = sofar.size() >= before ? sofar.substr(before) : std::string();
                        kit::violate(std::string("C09/layout@") + P::apiname() + ":" + ent(it).name,
                                     "value of type %s is written as %s (%zu bytes); the layout rule (scalars native image, containers u16 count + elements) gives %s (%zu bytes)",
                                     ent(it).name, hexs(got).c_str(), got.size(), hexs(ref.substr(before)).c_str(), ref.size() - before);
                    }
                }
                rep.encoded = wh.bytes();
            }
            // decode the concatenation in sequence from an exact-size heap copy; the cursor must advance by exactly what was written
            size_t n = rep.encoded.size();
            std::unique_ptr<char[]> copy(new char[n ? n : 1]);
            memcpy(copy.get(), rep.encoded.data(), n);
            typename P::RHolder rh(copy.get(), n);
            for (size_t i = 0; i < items.size(); i++)
            {
                ent(items[i]).get(rh.r(), items[i], cfg, true, i);
                if (rh.pos() != rep.boundaries[i])
                    kit::violate(std::string("C09/consumed@") + P::apiname() + ":" + ent(items[i]).name, "decoding value #%zu (%s) left the reader at offset %zu, the writer had produced bytes up to %zu",
                                 i, ent(items[i]).name, rh.pos(), rep.boundaries[i]);
            }
        }

        void decode_cut(const std::vector<Item> &items, const GenCfg &cfg, const StreamReport &rep, size_t cut) override
        {
            if (!P::bounded) return;
            std::vector<std::string> canon[2];
            for (int pass = 0; pass < 2; pass++)
            {
                std::unique_ptr<char[]> copy(new char[cut ? cut : 1]); // exact size: a read beyond the cut is an ASan report
                memcpy(copy.get(), rep.encoded.data(), cut);
                scribble(pass ? 0x00 : 0xFF);
                typename P::RHolder rh(copy.get(), cut);
                for (size_t i = 0; i < items.size(); i++)
                {
                    bool complete = rep.boundaries[i] <= cut;
                    canon[pass].push_back(ent(items[i]).get(rh.r(), items[i], cfg, complete, i));
                    if (rh.pos() > cut) kit::violate(std::string("C09/cursor-beyond-input@") + P::apiname(), "reader position %zu beyond the %zu bytes supplied", rh.pos(), cut);
                }
            }
            for (size_t i = 0; i < items.size(); i++)
                if (canon[0][i] != canon[1][i])
                    kit::violate(std::string("C09/truncated-decode-reads-uninitialised@") + P::apiname() + ":" + ent(items[i]).name,
                                 "stream cut at byte %zu of %zu: value #%zu (%s) decodes differently depending on what the stack contained before the call "
                                 "(bytes that were never supplied are taken from uninitialised memory)",
                                 cut, rep.encoded.size(), i, ent(items[i]).name);
        }

        std::string encode_one(const Item &it, const GenCfg &cfg, bool *matches_layout_rule) override
        {
            typename P::WHolder wh;
            std::string ref;
            StreamReport rep;
            ent(it).put(wh.w(), it, cfg, ref, rep);
            if (matches_layout_rule) *matches_layout_rule = (ref == wh.bytes());
            return wh.bytes();
        }
        bool decode_one_equals(const Item &it, const GenCfg &cfg, const std::string &bytes) override
        {
            std::unique_ptr<char[]> copy(new char[bytes.size() ? bytes.size() : 1]);
            memcpy(copy.get(), bytes.data(), bytes.size());
            typename P::RHolder rh(copy.get(), bytes.size());
            try
            {
                ent(it).get(rh.r(), it, cfg, true, 0);
            }
            catch (const kit::Violation &)
            {
                return false;
            }
            return rh.pos() == bytes.size();
        }
    };
}
