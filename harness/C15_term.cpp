// C15 — line editor and terminal (engine E4, DESIGN.md 4.4 / 5 C15 / 11 A.1).
// keyboard task (key history -> bytes, optionally with line noise) -> real automaton (vterm.c or vtermxx.cpp)
// -> write callback -> VT100 screen model; execute / signal callbacks recorded; reference editor as oracle.
// A second world drives the sline API (C and igris::sline wrapper) and readline_linecpy directly.
#include "../sim/kit.h"
#include "C15_iface.h"

#include <igris/shell/readline.h>
#include <igris/container/sline.h>

#include <functional>
#include <memory>
#include <string>

using namespace kit;

namespace
{
    const char *PROMPTS[] = {"$ ", "", "igris> ", ">"};

    // ---------------------------------------------------------------- VT100 screen model (one logical row)
    struct Screen
    {
        std::string row;
        size_t col = 0;
        int st = 0; // 0 normal, 1 after ESC, 2 in CSI
        unsigned num = 0;
        bool have_num = false;
        bool strict = true; // well-formed configuration: anything the model does not define is a violation
        uint64_t rows_committed = 0;
        void put(unsigned char b)
        {
            switch (st)
            {
            case 0:
                if (b == 0x1B) { st = 1; return; }
                if (b == '\r') { col = 0; return; }
                if (b == '\n') { row.clear(); col = 0; rows_committed++; return; }
                if (b == 0x07) return; // BEL: audible only
                if ((b >= 0x20 && b < 0x7F) || b >= 0x80) // (bytes of the upper half: one glyph per byte, a Latin-1 terminal)
                {
                    if (col >= row.size()) row.resize(col + 1, ' ');
                    row[col++] = (char)b;
                    return;
                }
                if (strict) violate("C15/echo-undefined-byte", "the echo stream contains byte 0x%02x which the screen model does not define", b);
                return;
            case 1:
                if (b == '[') { st = 2; num = 0; have_num = false; return; }
                st = 0;
                if (strict) violate("C15/echo-undefined-escape", "the echo stream contains ESC 0x%02x", b);
                return;
            case 2:
                if (b >= '0' && b <= '9') { num = num * 10 + (b - '0'); have_num = true; if (num > 100000) num = 100000; return; }
                st = 0;
                {
                    unsigned n = have_num ? (num ? num : 1) : 1;
                    if (b == 'D') col = col >= n ? col - n : 0;
                    else if (b == 'C') col += n;
                    else if (b == 'K') { if (col < row.size()) row.resize(col); }
                    else if (strict) violate("C15/echo-undefined-escape", "the echo stream contains ESC [ ... %c", b);
                }
                return;
            }
        }
        std::string shown() const
        {
            return row;
        }
    };

    // ---------------------------------------------------------------- reference editor (from the key table in the headers)
    struct RefEditor
    {
        size_t cap, H;
        std::string line;
        size_t cursor = 0;
        std::vector<std::string> hist; // oldest .. newest, at most H entries
        size_t curhist = 0;
        void printable(char c)
        {
            if (line.size() + 1 < cap) { line.insert(line.begin() + cursor, c); cursor++; }
        }
        void backspace() { if (cursor > 0) { line.erase(cursor - 1, 1); cursor--; } }
        void del() { if (cursor < line.size()) line.erase(cursor, 1); }
        void left() { if (cursor > 0) cursor--; }
        void right() { if (cursor < line.size()) cursor++; }
        std::string enter()
        {
            std::string out = line;
            if (!line.empty() && (hist.empty() || hist.back() != line))
            {
                hist.push_back(line);
                if (hist.size() > H) hist.erase(hist.begin());
            }
            line.clear();
            cursor = 0;
            curhist = 0;
            return out;
        }
        void up() { if (curhist < hist.size()) { curhist++; line = hist[hist.size() - curhist]; cursor = line.size(); } }
        void down()
        {
            if (curhist > 0)
            {
                curhist--;
                line = curhist ? hist[hist.size() - curhist] : std::string();
                cursor = line.size();
            }
        }
        void interrupt() { line.clear(); cursor = 0; curhist = 0; }
    };

    enum Key { K_PRINT, K_BS, K_LEFT, K_RIGHT, K_UP, K_DOWN, K_DEL, K_ENTER, K_CTRLC, K_UNK2, K_UNK3, K_NOISE, K_FILL, K_REINIT, K_N };
    const char *K_NAME[] = {"char", "BS", "Left", "Right", "Up", "Down", "Del", "Enter", "^C", "ESC-x", "ESC-[-x", "noise", "fill", "re-init"};

    struct Sink : TermSink
    {
        Screen scr;
        std::vector<std::string> executed;
        std::vector<unsigned> exec_len;
        int sigints = 0;
        bool bad_exec = false;
        std::string bad_msg;
        size_t cap = 0;
        uint64_t echo_bytes = 0;
        void on_write(const char *d, unsigned n) override
        {
            echo_bytes += n;
            for (unsigned i = 0; i < n; i++) scr.put((unsigned char)d[i]);
        }
        void on_execute(const char *l, unsigned n) override
        {
            // (ptr, len): ptr[0..len) is the line, ptr[len] == 0 inside the buffer (ASan checks the read)
            if (n >= cap) { bad_exec = true; bad_msg = "execute called with length " + std::to_string(n) + " for capacity " + std::to_string(cap); }
            else if (l[n] != 0) { bad_exec = true; bad_msg = "line passed to execute is not NUL terminated at its length"; }
            executed.push_back(std::string(l, n));
            exec_len.push_back(n);
            if (exec_hook) exec_hook(executed.back());
        }
        std::function<void(const std::string &)> exec_hook;
        void on_signal(int sig) override { if (sig == 2) sigints++; else { bad_exec = true; bad_msg = "signal " + std::to_string(sig) + " raised (expected SIGINT=2)"; } }
    };

    struct TermWorld : World
    {
        bool xx, noise;
        std::string nm;
        TermWorld(bool xx, bool noise) : xx(xx), noise(noise) { nm = std::string(xx ? "vtermxx" : "vterm-c") + (noise ? "+noise" : ""); }
        const char *name() const override { return nm.c_str(); }
        unsigned weight(Tier) const override { return noise ? 1 : 3; }

        Plan generate(Rng &r, Tier tier) override
        {
            Plan p;
            int cap = (int)r.range(2, 24), H = (int)r.range(1, 9);
            if (r.chance(1, 4)) cap = (int)r.range(2, 5);
            bool big = r.chance(1, 25); // a wide line: columns beyond 255
            if (big) cap = (int)r.range(258, 340);
            // prompt variant and echo switch (echo off: only the executed lines and the bounds can be checked)
            // cfg[4]: bit 0 no signal callback registered (1 run in 6); bits 1..2 what the caller-supplied storage held before init
            p.cfg = {cap, H, r.chance(2, 3) ? 0 : (int64_t)r.range(1, 3), r.chance(1, 8) ? 0 : 1, (int64_t)((r.chance(1, 6) ? 1 : 0) | (r.below(4) << 1) | (r.chance(1, 4) ? 8 : 0))}; // bit 3: the execute callback switches the echo for some lines
            int n = (int)r.range(4, tier == THOROUGH ? 200 : 120);
            bool longrun = r.chance(1, 40); // a long session: what only accumulates over hundreds or thousands of keys
            if (longrun) n *= 25;
            int style = (int)r.below(3); // 0 mixed, 1 edit-heavy, 2 history-heavy
            if (longrun && r.chance(1, 2))
            {
                // ... beginning with a few hundred short command lines (more stored lines than an 8-bit counter counts)
                int lines = (int)r.range(240, 560);
                if (r.chance(1, 2)) p.cfg[1] = r.pick<int64_t>({130, 200, 255}); // a deep history: slot arithmetic beyond 128 / 256
                for (int i = 0; i < lines; i++)
                {
                    p.ops.push_back({K_PRINT, (int64_t)(i % 90), 0});
                    if (i % 3 == 0) p.ops.push_back({K_PRINT, (int64_t)((i / 3) % 90), 0});
                    p.ops.push_back({K_ENTER, (int64_t)r.below(4), 0});
                }
            }
            for (int i = 0; i < n; i++)
            {
                unsigned c = (unsigned)r.below(100);
                int64_t k;
                if (noise && c < 25) k = K_NOISE;
                else if (c < 45) k = K_PRINT;
                else if (style == 1) k = r.pick<int64_t>({K_LEFT, K_LEFT, K_RIGHT, K_BS, K_DEL, K_PRINT, K_ENTER, K_UP});
                else if (style == 2) k = r.pick<int64_t>({K_ENTER, K_UP, K_UP, K_DOWN, K_PRINT, K_LEFT, K_CTRLC});
                else k = (int64_t)r.below(K_NOISE);
                if (big && r.chance(1, 6)) k = K_FILL;
                if (big && r.chance(1, 12))
                {
                    // the cursor walks far back into a wide line: the next edits have dozens of characters to their right
                    int back = (int)r.range(33, 90);
                    for (int j = 0; j < back; j++) p.ops.push_back({K_LEFT, 0, 0});
                }
                if (r.chance(1, longrun ? 2000 : 70)) k = K_REINIT; // the owner restarts the session on the same object: a: new capacity, b: new history depth
                // a: printable selector / enter variant / unknown byte ; b: noise byte
                p.ops.push_back({k, r.chance(1, 8) ? (int64_t)(95 + r.below(128)) : (int64_t)r.below(95), (int64_t)r.below(256)});
            }
            return p;
        }
        std::string describe(const Plan &p) override
        {
            std::string s = "cap=" + std::to_string(mod(p.c(0) - 2, 400) + 2) + " hist=" + std::to_string(p.c(1) >= 100 ? std::min<int64_t>(p.c(1), 255) : mod(p.c(1) - 1, 9) + 1) + " keys:";
            for (auto &o : p.ops)
            {
                int k = (int)mod(arg(o, 0), K_N);
                s += std::string(" ") + K_NAME[k];
                if (k == K_PRINT) { int pv = (int)mod(arg(o, 1), 223); char hb[8]; snprintf(hb, sizeof hb, "<%02x>", pv < 95 ? 0x20 + pv : 0x80 + (pv - 95)); s += pv < 95 ? std::string("'") + (char)(0x20 + pv) + "'" : std::string(hb); }
                if (k == K_ENTER) s += std::to_string(mod(arg(o, 1), 4));
                if (k == K_NOISE) s += std::to_string(mod(arg(o, 2), 256));
                if (k == K_REINIT) s += "(cap=" + std::to_string(2 + mod(arg(o, 1), 23)) + ",hist=" + std::to_string(1 + mod(arg(o, 2), 9)) + ")";
            }
            return s;
        }

        Result execute(const Plan &p, Trace &tr) override
        {
            Result res;
            size_t cap = (size_t)mod(p.c(0) - 2, 400) + 2, H = p.c(1) >= 100 ? (size_t)std::min<int64_t>(p.c(1), 255) : (size_t)mod(p.c(1) - 1, 9) + 1;
            if (H >= 100) probe("history_depth_over_128");
            std::unique_ptr<Term> term(xx ? make_term_xx() : make_term_c());
            Sink sink;
            sink.cap = cap;
            sink.scr.strict = !noise;
            RefEditor ref;
            ref.cap = cap;
            ref.H = H;
            const std::string PROMPT = PROMPTS[mod(p.c(2), 4)];
            bool echo = mod(p.c(3, 1), 2) != 0;
            if (!echo) probe("echo_off");
            if (PROMPT != "$ ") probe("other_prompt");
            const unsigned flags = (unsigned)mod(p.c(4, 0), 16);
            const bool no_sig = (flags & 1) != 0;
            if (no_sig) probe("no_signal_callback");
            if (flags >> 1) probe("dirty_storage_before_init");
            term->start((unsigned)cap, (unsigned)H, &sink, PROMPTS[mod(p.c(2), 4)], echo, flags);
            uint64_t quiet_base = 0; // bytes written before the echo was (last) switched off: nothing may be added while it is off
            if (flags & 8)
                sink.exec_hook = [&](const std::string &l) {
                    // a login / password dialogue: the command handler switches the echo for the next line
                    if (l.size() % 3 != 1) return;
                    echo = !echo;
                    term->set_echo(echo);
                    if (echo)
                    {
                        Screen fresh;
                        fresh.strict = sink.scr.strict;
                        sink.scr = fresh; // what the row shows after the silent period is not specified: start from a clean row
                    }
                    else quiet_base = sink.echo_bytes;
                    probe("echo_switched_by_callback");
                };
            int last_byte = -1;          // last byte delivered (for the CR-LF / LF-CR pairing rule)
            bool last_nl_fired = false;  // that byte was a line-end byte that produced a line end
            size_t n_exec_expected = 0;
            int sig_expected = 0;
            bool mid_edit = false, recalled = false;
            uint64_t keys = 0;
            std::vector<std::string> expected_lines;
            size_t exec_base = 0; // lines executed before the last re-init belong to another geometry
            // a second terminal of the same kind works next to the one under test: it gets the keys "ok" Enter over and over (one
            // byte per byte of the first terminal) and must execute "ok" each time, whatever happens on the first one
            std::unique_ptr<Term> by(xx ? make_term_xx() : make_term_c());
            Sink by_sink;
            by_sink.cap = 8;
            by_sink.scr.strict = false;
            by->start(8, 2, &by_sink, "", true);
            size_t by_pos = 0, by_lines = 0;
            int etx_fed = 0;
            const char by_script[3] = {'o', 'k', '\r'};
            auto feed = [&](int b) {
                by->feed((unsigned char)by_script[by_pos]);
                if (++by_pos == 3)
                {
                    by_pos = 0;
                    by_lines++;
                    if (by_sink.executed.size() != by_lines || by_sink.executed.back() != "ok")
                        violate("C15/bystander", "a second terminal working next to the one under test executed %zu lines after %zu Enter keys (last: '%s')", by_sink.executed.size(), by_lines,
                                by_sink.executed.empty() ? "" : by_sink.executed.back().c_str());
                }
                term->feed(b);
                if (b == 3) etx_fed++; // (every Ctrl-C byte, whatever stands before it)
                last_byte = b;
                tr.u((uint64_t)b);
            };
            auto check_bounds = [&](const char *when) {
                long len = term->len(), cur = term->cursor();
                if (len >= 0)
                {
                    if (!(cur >= 0 && cur <= len && (size_t)len < cap))
                        violate("C15/bounds", "%s: cursor=%ld length=%ld capacity=%zu violates 0 <= cursor <= length < capacity", when, cur, len, cap);
                }
                if (sink.bad_exec) violate("C15/execute-args", "%s: %s", when, sink.bad_msg.c_str());
            };
            auto check_screen = [&](const char *when) {
                if (!echo)
                {
                    if (sink.echo_bytes != quiet_base) violate("C15/echo-off", "%s: %llu bytes were written to the terminal although echo is switched off", when, (unsigned long long)(sink.echo_bytes - quiet_base));
                    return;
                }
                std::string shown = sink.scr.shown();
                std::string w1 = PROMPT + ref.line, w0 = ref.line;
                bool ok1 = shown == w1 && sink.scr.col == PROMPT.size() + ref.cursor;
                // vtermxx prints the prompt lazily (with the next key): a row that shows just the line is accepted too
                bool ok0 = shown == w0 && sink.scr.col == ref.cursor;
                if (!(ok1 || ok0))
                    violate(std::string("C15/screen@") + when, "after %s the screen row shows '%s' with the cursor at column %zu; the reference editor has line '%s' cursor %zu (prompt '%s')",
                            when, shown.c_str(), sink.scr.col, ref.line.c_str(), ref.cursor, PROMPT.c_str());
            };
            check_bounds("init");
            if (!noise) check_screen("init");
            for (auto &o : p.ops)
            {
                int k = (int)mod(arg(o, 0), K_N);
                if (k == K_NOISE && !noise) k = K_PRINT;
                if (k == K_FILL)
                {
                    // a burst of printables (paste): fills a wide line quickly
                    int cnt = 40 + (int)mod(arg(o, 2), 256);
                    for (int q = 0; q < cnt; q++)
                    {
                        char c = (char)('a' + (q + (int)arg(o, 1)) % 26);
                        feed((unsigned char)c);
                        ref.printable(c);
                    }
                    if (ref.cursor >= 256) probe("cursor_beyond_column_255");
                    last_nl_fired = false;
                    check_bounds("fill");
                    if (!noise) check_screen("fill");
                    keys++;
                    continue;
                }
                if (k == K_REINIT)
                {
                    // session restart on the same terminal object with another geometry: everything starts from scratch
                    // (empty line, empty history, fresh screen)
                    // the session may be torn down in the middle of an escape sequence: the new session starts from the idle state
                    if (mod(arg(o, 2), 4) == 1) { term->feed(0x1B); probe("reinit_inside_escape"); }
                    else if (mod(arg(o, 2), 4) == 2) { term->feed(0x1B); term->feed(0x5B); probe("reinit_inside_escape"); }
                    size_t H0 = H;
                    cap = (size_t)(2 + mod(arg(o, 1), 23));
                    H = (size_t)(1 + mod(arg(o, 2), 9));
                    probe("reinit");
                    if (H < H0 && !ref.hist.empty()) probe("reinit_with_smaller_history");
                    sink.cap = cap;
                    ref = RefEditor();
                    ref.cap = cap;
                    ref.H = H;
                    bool strict = sink.scr.strict;
                    sink.scr = Screen();
                    sink.scr.strict = strict;
                    if (!echo) quiet_base = sink.echo_bytes;
                    term->start((unsigned)cap, (unsigned)H, &sink, PROMPTS[mod(p.c(2), 4)], echo, flags);
                    last_byte = -1;
                    last_nl_fired = false;
                    exec_base = sink.executed.size();
                    tr.u(cap * 16 + H);
                    check_bounds("re-init");
                    if (!noise) check_screen("re-init");
                    keys++;
                    continue;
                }
                const char *kn = K_NAME[k];
                keys++;
                switch (k)
                {
                case K_PRINT:
                {
                    // arg 1: 0..94 the ASCII printables; 95..222 the bytes 0x80..0xFF (a user typing Latin-1 / UTF-8 text)
                    int pv = (int)mod(arg(o, 1), 223);
                    char c = (char)(pv < 95 ? 0x20 + pv : 0x80 + (pv - 95));
                    if (pv >= 95) probe("high_byte_typed");
                    if (ref.cursor < ref.line.size()) { mid_edit = true; probe("insert_mid_line"); }
                    if (ref.line.size() + 1 >= cap) { probe("line_full"); fault("overlong_line"); }
                    feed((unsigned char)c);
                    ref.printable(c);
                    last_nl_fired = false;
                    break;
                }
                case K_BS:
                    if (ref.cursor > 0 && ref.cursor < ref.line.size()) mid_edit = true;
                    feed(0x08);
                    ref.backspace();
                    last_nl_fired = false;
                    break;
                case K_LEFT:
                case K_RIGHT:
                case K_UP:
                case K_DOWN:
                {
                    if (k == K_UP)
                    {
                        // what lies behind the oldest stored line is not defined by the property: Up is only pressed while a
                        // stored line exists (or at the very top of a full history, where it must do nothing)
                        if (!(ref.curhist < ref.hist.size() || (ref.curhist == H && ref.hist.size() == H))) { keys--; continue; }
                        if (ref.curhist < ref.hist.size()) recalled = true;
                        if (ref.cursor < ref.line.size()) probe("recall_with_cursor_inside_line");
                    }
                    feed(0x1B);
                    feed(0x5B);
                    feed(k == K_UP ? 0x41 : k == K_DOWN ? 0x42 : k == K_RIGHT ? 0x43 : 0x44);
                    if (k == K_LEFT) ref.left();
                    else if (k == K_RIGHT) ref.right();
                    else if (k == K_UP) ref.up();
                    else ref.down();
                    last_nl_fired = false;
                    break;
                }
                case K_DEL:
                    if (ref.cursor + 1 < ref.line.size()) mid_edit = true;
                    feed(0x1B);
                    feed(0x5B);
                    feed(0x33);
                    feed(0x7E);
                    ref.del();
                    last_nl_fired = false;
                    break;
                case K_ENTER:
                {
                    int variant = (int)mod(arg(o, 1), 4); // CR, LF, CRLF, LFCR
                    const int seqs[4][2] = {{'\r', -1}, {'\n', -1}, {'\r', '\n'}, {'\n', '\r'}};
                    for (int bi = 0; bi < 2; bi++)
                    {
                        int b = seqs[variant][bi];
                        if (b < 0) break;
                        // pairing rule: a line-end byte right after a *different* line-end byte that produced a line end
                        // belongs to that same line end
                        bool absorbed = last_nl_fired && (last_byte == '\r' || last_byte == '\n') && last_byte != b;
                        if (absorbed && bi == 0) probe("crlf_twice");
                        if (!absorbed)
                        {
                            std::string l = ref.enter();
                            expected_lines.push_back(l);
                            n_exec_expected++;
                            if (ref.hist.size() == H) probe("history_full");
                        }
                        feed(b);
                        last_nl_fired = !absorbed;
                    }
                    break;
                }
                case K_CTRLC:
                    // a Ctrl-C between the two bytes of a possible CR LF pair has no agreed meaning: not generated
                    if (last_nl_fired) { keys--; continue; }
                    feed(0x03);
                    ref.interrupt();
                    if (!no_sig) sig_expected++;
                    fault("interrupt");
                    last_nl_fired = false;
                    break;
                case K_UNK2:
                {
                    int x = 0x20 + (int)mod(arg(o, 1), 95);
                    if (x == 0x5B) x = 'z';
                    feed(0x1B);
                    feed(x);
                    probe("unknown_escape");
                    last_nl_fired = false;
                    break;
                }
                case K_UNK3:
                {
                    int x = 0x20 + (int)mod(arg(o, 1), 95);
                    if (x == 0x41 || x == 0x42 || x == 0x43 || x == 0x44 || x == 0x33) x = 'Z';
                    feed(0x1B);
                    feed(0x5B);
                    feed(x);
                    probe("unknown_escape");
                    last_nl_fired = false;
                    break;
                }
                case K_NOISE:
                    // line noise: an arbitrary byte spliced in at a key boundary (it may start, break or sit inside an escape)
                    feed((int)mod(arg(o, 2), 256));
                    fault("line_noise");
                    if (mod(arg(o, 2), 256) == 0x1B) probe("esc_split_by_noise");
                    break;
                }
                check_bounds(kn);
                if (!noise)
                {
                    if (sink.executed.size() != n_exec_expected)
                        violate(std::string("C15/execute-count@") + kn, "after %s: execute callback ran %zu times, the reference editor completed %zu lines", kn, sink.executed.size(), n_exec_expected);
                    if (!sink.executed.empty() && sink.executed.back() != expected_lines.back())
                        violate(std::string("C15/execute-line@") + kn, "line handed to execute is '%s', the reference editor produced '%s'", sink.executed.back().c_str(), expected_lines.back().c_str());
                    if (sink.sigints != sig_expected) violate("C15/sigint", "SIGINT raised %d times, expected %d", sink.sigints, sig_expected);
                    check_screen(kn);
                }
                else
                {
                    // noise configuration: only the safety half (bounds, memory, sane execute arguments)
                    for (size_t q = exec_base; q < sink.executed.size(); q++)
                        if (sink.executed[q].size() >= cap) violate("C15/execute-args", "executed line of %zu characters for capacity %zu", sink.executed[q].size(), cap);
                    // ... and the interrupt key: Ctrl-C is recognised wherever it arrives, also in the middle of an escape sequence
                    // (one SIGINT per 0x03 byte when a signal callback is registered; what becomes of the interrupted sequence is not judged)
                    if (!no_sig && sink.sigints != etx_fed)
                        violate("C15/sigint", "%d Ctrl-C bytes were typed (some inside escape sequences or noise), SIGINT was raised %d times", etx_fed, sink.sigints);
                }
            }
            res.steps = keys;
            res.simtime = sink.echo_bytes;
            res.nontrivial = mid_edit || recalled;
            stat("keys", keys);
            stat("echo_bytes", sink.echo_bytes);
            stat("lines_executed", sink.executed.size());
            return res;
        }
    };

    // ---------------------------------------------------------------- sline API world (C sline, igris::sline, readline_linecpy)
    enum { L_PUTCHAR, L_NEWDATA, L_BACKSPACE, L_DELETE, L_LEFT, L_RIGHT, L_GETLINE, L_RESET, L_LINECPY, L_N };
    struct SlineWorld : World
    {
        const char *name() const override { return "sline-api"; }
        unsigned weight(Tier) const override { return 2; }
        Plan generate(Rng &r, Tier tier) override
        {
            Plan p;
            int cap = (int)r.range(2, 16);
            p.cfg = {cap, (int64_t)r.below(3)}; // cfg[1]: 0 C sline inside struct readline, 1 igris::sline wrapper, 2 igris::readline (typed keys + linecpy)
            int n = (int)r.range(4, tier == THOROUGH ? 120 : 60);
            if (r.chance(1, 40)) n *= 25; // a long history: what only accumulates over hundreds or thousands of operations
            for (int i = 0; i < n; i++) p.ops.push_back({(int64_t)r.below(L_N), (int64_t)r.below(2 * cap + 2), (int64_t)r.below(95)});
            return p;
        }
        Result execute(const Plan &p, Trace &tr) override
        {
            Result res;
            size_t cap = (size_t)mod(p.c(0) - 2, 30) + 2;
            if (mod(p.c(1), 3) == 2)
            {
                // the C++ line editor on its own: printables, backspace and arrows are typed, linecpy reads the line out
                std::unique_ptr<XReadline> xr(make_xreadline());
                xr->init((unsigned)cap, 2);
                std::string m;
                size_t cur = 0;
                bool exact = false;
                for (auto &o : p.ops)
                {
                    int k = (int)mod(arg(o, 0), L_N);
                    size_t n = (size_t)mod(arg(o, 1), 2 * cap + 2);
                    char c = (char)(0x20 + mod(arg(o, 2), 95));
                    switch (k)
                    {
                    case L_PUTCHAR:
                    case L_NEWDATA:
                        xr->key((unsigned char)c);
                        if (m.size() + 1 < cap) { m.insert(m.begin() + cur, c); cur++; }
                        break;
                    case L_BACKSPACE:
                        xr->key(0x08);
                        if (cur > 0) { m.erase(cur - 1, 1); cur--; }
                        break;
                    case L_LEFT:
                        xr->key(0x1B); xr->key(0x5B); xr->key(0x44);
                        if (cur > 0) cur--;
                        break;
                    case L_RIGHT:
                        xr->key(0x1B); xr->key(0x5B); xr->key(0x43);
                        if (cur < m.size()) cur++;
                        break;
                    default:
                    {
                        size_t maxlen = n % (cap + 3) + 1;
                        if (k == L_GETLINE) maxlen = m.size() + (size_t)mod(arg(o, 2), 3); // around the exact fit: len, len+1, len+2
                        if (maxlen == 0) maxlen = 1;
                        if (maxlen == m.size()) exact = true;
                        std::unique_ptr<char[]> dst(new char[maxlen]);
                        int rc = xr->linecpy(dst.get(), maxlen);
                        size_t want = std::min(m.size(), maxlen - 1);
                        if ((size_t)rc != want || dst[want] != 0 || memcmp(dst.get(), m.data(), want) != 0)
                            violate("C15/linecpy", "igris::readline::linecpy(size=%zu) returned %d, expected %zu characters of '%s'", maxlen, rc, want, m.c_str());
                        probe("linecpy");
                        break;
                    }
                    }
                    tr.ev("xrl op %d -> len %zu cur %zu", k, m.size(), cur);
                }
                res.nontrivial = exact;
                return res;
            }
            bool wrapper = mod(p.c(1), 3) == 1;
            std::unique_ptr<char[]> buf(new char[cap]);
            struct ::sline csl;
            struct readline rl;
            igris::sline xsl;
            if (wrapper) xsl.init(cap);
            else { readline_init(&rl, buf.get(), cap); }
            struct ::sline *sl = wrapper ? nullptr : &rl.line;
            (void)csl;
            std::string m;
            size_t cur = 0;
            bool full_seen = false, bulk_clamped = false;
            auto len = [&]() -> size_t { return wrapper ? xsl.current_size() : sl->len; };
            auto check = [&](const char *when) {
                if (len() != m.size()) violate(std::string("C15/sline-len@") + when, "%s: length %zu, reference %zu (capacity %zu)", when, len(), m.size(), cap);
                if (len() >= cap) violate(std::string("C15/sline-capacity@") + when, "%s: %zu characters stored in a line buffer of capacity %zu (no room for the terminator)", when, len(), cap);
                if (!wrapper)
                {
                    if (sl->cursor != cur) violate(std::string("C15/sline-cursor@") + when, "%s: cursor %u, reference %zu", when, sl->cursor, cur);
                    if (sl->cursor > sl->len) violate("C15/bounds", "%s: cursor %u > length %u", when, sl->cursor, sl->len);
                    if (memcmp(sl->buf, m.data(), m.size()) != 0) violate(std::string("C15/sline-content@") + when, "%s: buffer differs from the reference line '%s'", when, m.c_str());
                    // the small accessors agree with the reference as well
                    if (sline_rightsize(sl) != m.size() - cur || sline_rightpart(sl) != sl->buf + cur || (sline_in_rightpos(sl) != 0) != (cur == m.size()) || (sline_empty(sl) != 0) != m.empty() ||
                        (size_t)sline_size(sl) != m.size() || (size_t)sline_avail(sl) != cap - m.size() || !sline_equal(sl, m.c_str()) || (m.size() && sline_equal(sl, m.substr(1).c_str())))
                        violate(std::string("C15/sline-accessors@") + when, "%s: rightsize/rightpart/in_rightpos/empty/size/avail/equal disagree with the reference line '%s' cursor %zu", when, m.c_str(), cur);
                }
                else
                {
                    if ((size_t)xsl.rightsize() != m.size() - cur) violate(std::string("C15/sline-cursor@") + when, "%s: rightsize %u, reference %zu", when, (unsigned)xsl.rightsize(), m.size() - cur);
                    if (memcmp(xsl.data(), m.data(), m.size()) != 0) violate(std::string("C15/sline-content@") + when, "%s: buffer differs from the reference line '%s'", when, m.c_str());
                }
                if (m.size() + 1 == cap) full_seen = true;
            };
            check("init");
            for (auto &o : p.ops)
            {
                int k = (int)mod(arg(o, 0), L_N);
                size_t n = (size_t)mod(arg(o, 1), 2 * cap + 2);
                char c = (char)(0x20 + mod(arg(o, 2), 95));
                switch (k)
                {
                case L_PUTCHAR:
                {
                    bool room = m.size() + 1 < cap;
                    if (wrapper) xsl.newdata(c);
                    else
                    {
                        int rc = sline_putchar(sl, c);
                        if ((rc != 0) != room) violate("C15/sline-putchar-result", "sline_putchar returned %d with %zu of %zu used", rc, m.size(), cap - 1);
                    }
                    if (room) { m.insert(m.begin() + cur, c); cur++; }
                    else probe("line_full");
                    break;
                }
                case L_NEWDATA:
                {
                    // bulk paste of n characters from an exact-size source
                    std::unique_ptr<char[]> src(new char[n ? n : 1]);
                    for (size_t i = 0; i < n; i++) src[i] = (char)('a' + (i + (size_t)c) % 26);
                    size_t room = cap - 1 - m.size();
                    size_t take = std::min(n, room);
                    if (n > room) { bulk_clamped = true; probe("bulk_paste_clamped"); fault("overlong_line"); }
                    if (wrapper) xsl.newdata(src.get(), n);
                    else
                    {
                        int rc = sline_newdata(sl, src.get(), (int)n);
                        if ((size_t)rc != take) violate("C15/sline-newdata-result", "sline_newdata(%zu) accepted %d characters, room (capacity-1-length) was %zu", n, rc, room);
                    }
                    m.insert(cur, std::string(src.get(), take));
                    cur += take;
                    break;
                }
                case L_BACKSPACE:
                {
                    size_t cnt = std::min(n % 4, cur);
                    if (wrapper) xsl.backspace((int)(n % 4));
                    else
                    {
                        int rc = sline_backspace(sl, (unsigned)(n % 4));
                        if ((size_t)rc != cnt) violate("C15/sline-edit-result", "sline_backspace(%zu) returned %d, %zu characters were left of the cursor", n % 4, rc, cur);
                    }
                    m.erase(cur - cnt, cnt);
                    cur -= cnt;
                    break;
                }
                case L_DELETE:
                {
                    size_t cnt = std::min(n % 4, m.size() - cur);
                    if (wrapper) xsl.del((int)(n % 4));
                    else
                    {
                        int rc = sline_delete(sl, (unsigned)(n % 4));
                        if ((size_t)rc != cnt) violate("C15/sline-edit-result", "sline_delete(%zu) returned %d, %zu characters were right of the cursor", n % 4, rc, m.size() - cur);
                    }
                    m.erase(cur, cnt);
                    break;
                }
                case L_LEFT:
                    if (wrapper) xsl.left();
                    else if ((sline_left(sl) != 0) != (cur > 0)) violate("C15/sline-edit-result", "sline_left returned the wrong answer with the cursor at %zu", cur);
                    if (cur > 0) cur--;
                    break;
                case L_RIGHT:
                    if (wrapper) xsl.right();
                    else if ((sline_right(sl) != 0) != (cur < m.size())) violate("C15/sline-edit-result", "sline_right returned the wrong answer with the cursor at %zu of %zu", cur, m.size());
                    if (cur < m.size()) cur++;
                    break;
                case L_GETLINE:
                {
                    const char *s = wrapper ? xsl.getline() : sline_getline(sl);
                    if (strlen(s) != m.size() || memcmp(s, m.data(), m.size()) != 0) violate("C15/sline-getline", "getline gives '%s', reference '%s'", s, m.c_str());
                    probe("getline");
                    break;
                }
                case L_RESET:
                    if (wrapper) xsl.reset();
                    else sline_reset(sl);
                    m.clear();
                    cur = 0;
                    break;
                case L_LINECPY:
                    if (!wrapper)
                    {
                        size_t maxlen = n % (cap + 3) + 1;
                        std::unique_ptr<char[]> dst(new char[maxlen]);
                        int rc = readline_linecpy(&rl, dst.get(), maxlen);
                        size_t want = std::min(m.size(), maxlen - 1);
                        if ((size_t)rc != want || dst[want] != 0 || memcmp(dst.get(), m.data(), want) != 0)
                            violate("C15/linecpy", "readline_linecpy(maxlen=%zu) returned %d, expected %zu characters of '%s'", maxlen, rc, want, m.c_str());
                        probe("linecpy");
                    }
                    break;
                }
                tr.ev("op %d -> len %zu cur %zu", k, m.size(), cur);
                check("after-op");
            }
            res.nontrivial = full_seen && bulk_clamped;
            return res;
        }
    };
}

int main(int argc, char **argv)
{
    TermWorld wc(false, false), wx(true, false), wcn(false, true), wxn(true, true);
    SlineWorld ws;
    Harness h;
    h.property = "C15";
    h.worlds = {&wc, &wx, &wcn, &wxn, &ws};
    h.real = {"igris/shell/vterm.c", "igris/shell/vtermxx.cpp", "igris/shell/readline.h", "igris/shell/readlinexx.h", "igris/datastruct/sline.h", "igris/container/sline.h",
              "igris/defs/vt100.h", "igris/util/numconvert.c (igris_i32toa used by vt100_left)"};
    h.stub = {"keyboard task (key history -> bytes, line noise)", "VT100 screen model fed by the write callback", "reference editor", "execute / signal callback recorders"};
    return harness_main(h, argc, argv);
}
KIT_ASAN_OPTIONS()
