// C09: interface between the harness and the two serialisation API translation units
#pragma once
#include "C09_ref.h"
namespace c09
{
    struct Api
    {
        virtual ~Api() {}
        virtual const char *name() = 0;
        virtual int ntypes() = 0;
        virtual const char *tname(int t) = 0;
        virtual bool bounded_reader() = 0; // has a reader that must survive truncation (deserialize_buffer_storage)
        // fault-free: write the whole stream with the real writer, compare with the layout rule, read it back in sequence
        virtual void roundtrip(const std::vector<Item> &items, const GenCfg &cfg, StreamReport &rep) = 0;
        // fault: decode the stream cut at `cut` from an exact-size heap copy; values complete before the cut must be intact
        virtual void decode_cut(const std::vector<Item> &items, const GenCfg &cfg, const StreamReport &rep, size_t cut) = 0;
        // golden support
        virtual std::string encode_one(const Item &it, const GenCfg &cfg, bool *matches_layout_rule = nullptr) = 0;
        virtual bool decode_one_equals(const Item &it, const GenCfg &cfg, const std::string &bytes) = 0;
    };
    Api *make_api1(); // igris/serialize/archive.h + stdtypes.h (binary_string_writer / binary_buffer_reader)
    Api *make_api1b(); // same, through binary_buffer_writer and the igris::serialize(obj) / igris::deserialize<T>(buffer) helpers
    Api *make_api2(); // igris/serialize/serializer.h family (serializer / deserializer objects)
    Api *make_api2b(); // same, through the free functions of serialize_archive.h
}
