#!/usr/bin/env python3
"""api_coverage.py <ID> [runs] : which functions of the igris sources does the check of <ID> actually execute?
Builds the harness of the check with gcov instrumentation (-O0 --coverage), runs the quick tier with that build, then
lists every function defined under IGRIS_ROOT/igris (or compat/) that the build contains, with its call count; functions
with count 0 are entry points the generators never reach. Not a registered check; a tool for widening the generators."""
import os, sys, subprocess, json, gzip, glob, shutil, re
V = os.path.dirname(os.path.dirname(os.path.abspath(__file__)))
cid = sys.argv[1]
runs = sys.argv[2] if len(sys.argv) > 2 else "6000"
env = dict(os.environ, VERIF_COV="1")
r = subprocess.run([os.path.join(V, "check"), cid, "--runs", runs, "--workers", "4"], env=env, capture_output=True, text=True)
dirs = [l.split(" ", 1)[1] for l in r.stdout.splitlines() if l.startswith("COVDIR ")]
print(r.stdout.strip().splitlines()[-3] if r.stdout.strip() else r.stderr[-500:])
root = os.environ.get("IGRIS_ROOT", "/repo")
funcs = {}
lines = {}  # rel -> {line: count}
for d in dirs:
    for gcda in glob.glob(os.path.join(d, "*.gcda")):
        subprocess.run(["gcov", "-j", "-m", os.path.basename(gcda)], cwd=d, capture_output=True)
    for js in glob.glob(os.path.join(d, "*.gcov.json.gz")):
        data = json.load(gzip.open(js))
        for f in data["files"]:
            fn = f["file"]
            if not (fn.startswith(root + "/igris") or fn.startswith(root + "/compat")):
                continue
            rel = fn[len(root) + 1:]
            lm = lines.setdefault(rel, {})
            for ln in f["lines"]:
                lm[ln["line_number"]] = lm.get(ln["line_number"], 0) + ln["count"]
            for fu in f["functions"]:
                key = (rel, fu["demangled_name"], fu["start_line"])
                funcs[key] = funcs.get(key, 0) + fu["execution_count"]
    shutil.rmtree(d, ignore_errors=True)
zero = sorted(k for k, v in funcs.items() if v == 0)
print("%d functions of igris compiled into the check, %d never executed:" % (len(funcs), len(zero)))
for rel, name, line in zero:
    print("  %s:%d  %s" % (rel, line, re.sub(r"\s+", " ", name)[:160]))


def bodies(path):
    """rough scan for function bodies in a header: (start_line, end_line, signature text)"""
    src = open(path, errors="replace").read()
    src = re.sub(r"/\*.*?\*/", lambda m: re.sub(r"[^\n]", " ", m.group(0)), src, flags=re.S)
    src = re.sub(r"//[^\n]*", "", src)
    src = re.sub(r'"(\\.|[^"\\\n])*"', '""', src)
    out, stack = [], []
    line = 1
    i = 0
    last_stmt = 0
    while i < len(src):
        c = src[i]
        if c == "\n":
            line += 1
        elif c in ";}":
            if c == "}" and stack:
                kind, st, sig = stack.pop()
                if kind == "fn":
                    out.append((st, line, sig))
            last_stmt = i + 1
        elif c == "{":
            head = src[last_stmt:i].strip()
            hl = re.sub(r"\s+", " ", head)
            infn = any(k == "fn" for k, _, _ in stack)
            if infn:
                stack.append(("blk", line, ""))
            elif re.search(r"\b(namespace|class|struct|union|enum)\b[^()]*$", hl) or hl.endswith("=") or 'extern ""' in hl:
                stack.append(("scope", line, ""))
            elif ")" in hl:
                stack.append(("fn", line - head.count("\n"), hl[-150:]))
            else:
                stack.append(("scope", line, ""))
            last_stmt = i + 1
        i += 1
    return out

print()
print("header functions (rough scan) with no executed line:")
for rel in sorted(lines):
    if not rel.endswith((".h", ".hpp")):
        continue
    lm = lines[rel]
    for st, en, sig in bodies(os.path.join(root, rel)):
        inst = [l for l in range(st, en + 1) if l in lm]
        hit = [l for l in inst if lm[l] > 0]
        if not hit:
            print("  %s:%d  %s  %s" % (rel, st, "not instantiated" if not inst else "instantiated, never run", sig))
