#!/usr/bin/env python3
"""regress_seeded.py [id-prefix ...] : every kept seeded change must still be caught by the check of its property.
Applies seeded/<id>/patch.diff to a scratch worktree of /repo HEAD (outside /repo and /verif), runs the quick check
with IGRIS_ROOT there, expects exit 1 with a VIOLATION line; removes the worktree. Prints one line per change."""
import os, sys, json, subprocess, tempfile, shutil, concurrent.futures
V = os.path.dirname(os.path.dirname(os.path.abspath(__file__)))
ids = sorted(os.listdir(os.path.join(V, "seeded")))
if len(sys.argv) > 1:
    ids = [i for i in ids if any(i.startswith(p) for p in sys.argv[1:])]
def one(sid):
    meta = json.load(open(os.path.join(V, "seeded", sid, "meta.json")))
    prop = meta["property"]
    wt = tempfile.mkdtemp(prefix="igris-reg-")
    os.rmdir(wt)
    try:
        subprocess.run(["git", "-C", "/repo", "worktree", "add", "-q", "--detach", wt, "HEAD"], check=True, capture_output=True)
        r = subprocess.run(["git", "-C", wt, "apply", os.path.join(V, "seeded", sid, "patch.diff")], capture_output=True, text=True)
        if r.returncode != 0:
            return sid, "PATCH-DOES-NOT-APPLY", ""
        env = dict(os.environ, IGRIS_ROOT=wt)
        checks = [prop] + (["C05"] if prop == "C04" else []) + ([meta["caught_by"]] if meta.get("caught_by") not in (None, prop) else [])
        out = []
        for c in checks:
            r = subprocess.run([os.path.join(V, "check"), c, "--workers", "4"], env=env, capture_output=True, text=True)
            sigs = [l.split("sig=")[1].strip() for l in r.stdout.splitlines() if l.startswith("violation in run")]
            out.append((c, r.returncode, sigs))
            if r.returncode == 1:
                break
        ok = any(rc == 1 for _, rc, _ in out)
        return sid, "caught" if ok else "NOT-CAUGHT", "; ".join("%s rc=%d %s" % (c, rc, ",".join(s[:3])) for c, rc, s in out)
    finally:
        subprocess.run(["git", "-C", "/repo", "worktree", "remove", "--force", wt], capture_output=True)
        subprocess.run(["git", "-C", "/repo", "worktree", "prune"], capture_output=True)
        shutil.rmtree(wt, ignore_errors=True)
bad = 0
with concurrent.futures.ThreadPoolExecutor(max_workers=int(os.environ.get("REG_PAR", "3"))) as ex:
    for sid, res, det in ex.map(one, ids):
        print("%-6s %-12s %s" % (sid, res, det), flush=True)
        if res != "caught":
            bad += 1
print("seeded changes: %d, not caught: %d" % (len(ids), bad))
sys.exit(1 if bad else 0)
