#!/usr/bin/env python3
"""Sensitivity self-test: apply each hand-written regression in mutants/mutants.json (exact text replacement in
a scratch worktree of /repo under /tmp), run the quick check(s) with IGRIS_ROOT pointing at it, compare with the
expectation ("violation" or "silent"), remove the worktree.  usage: selftest_mutants.py [name-or-property-prefix ...]"""
import json, os, subprocess, sys, tempfile, time, shutil
V = os.path.dirname(os.path.dirname(os.path.abspath(__file__)))
muts = json.load(open(os.path.join(V, "mutants", "mutants.json")))
sel = sys.argv[1:]
rows = []
for m in muts:
    if sel and not any(m["name"].startswith(s) or m["property"] == s for s in sel):
        continue
    wt = tempfile.mkdtemp(prefix="igris-mut-")
    os.rmdir(wt)
    subprocess.run(["git", "-C", "/repo", "worktree", "add", "-q", "--detach", wt, "HEAD"], check=True,
                   stdout=subprocess.DEVNULL, stderr=subprocess.DEVNULL)
    try:
        ok_apply = True
        for e in m["edits"]:
            p = os.path.join(wt, e["file"])
            s = open(p).read()
            if s.count(e["old"]) < 1:
                ok_apply = False
                print("MUTANT-DOES-NOT-APPLY", m["name"], e["file"])
                break
            s = s.replace(e["old"], e["new"], 1 if not e.get("all") else -1)
            open(p, "w").write(s)
        if not ok_apply:
            rows.append((m["name"], m["property"], "n/a", "does-not-apply", 0))
            continue
        for cid in m.get("checks", [m["property"]]):
            t0 = time.time()
            env = dict(os.environ, IGRIS_ROOT=wt)
            out = subprocess.run([os.path.join(V, "check"), cid], env=env, stdout=subprocess.PIPE,
                                 stderr=subprocess.STDOUT, text=True)
            viol = [l for l in out.stdout.split("\n") if l.startswith("violation in run")]
            got = "violation" if out.returncode == 1 else ("silent" if out.returncode == 0 else "error rc=%d" % out.returncode)
            exp = m["expect"] if cid == m["property"] else "silent"
            status = "OK" if got == exp else "MISMATCH"
            sigs = ",".join(sorted({v.split("sig=")[1] for v in viol}))
            print("%-8s %-34s %-5s expect=%-9s got=%-9s %5.1fs %s" % (status, m["name"], cid, exp, got, time.time() - t0, sigs), flush=True)
            if out.returncode not in (0, 1):
                print(out.stdout[-3000:])
            rows.append((m["name"], cid, exp, got, time.time() - t0, sigs))
    finally:
        subprocess.run(["git", "-C", "/repo", "worktree", "remove", "--force", wt], stdout=subprocess.DEVNULL)
        subprocess.run(["git", "-C", "/repo", "worktree", "prune"])
        shutil.rmtree(wt, ignore_errors=True)
bad = [r for r in rows if r[2] != r[3]]
print("%d mutants run, %d mismatches" % (len(rows), len(bad)))
sys.exit(1 if bad else 0)
