#!/bin/bash
# prep_seed.sh <ID> [suffix] : scratch worktree /tmp/seed-<ID><suffix> with PROPERTY.txt and PROMPT.txt
id=$1; suf=${2:-}; d=/tmp/seed-$id$suf
git -C /repo worktree add -q --detach $d HEAD && mkdir -p $d/_seed_out
python3 - "$id" "$d" <<'PY'
import json,sys
for l in open('/verif/properties.jsonl'):
    p=json.loads(l)
    if p['id']==sys.argv[1]:
        open(sys.argv[2]+'/_seed_out/PROPERTY.txt','w').write("%s — %s\n\n%s\n\nQuantifier: %s\n\nAnchor files: %s\n"%(p['id'],p['title'],p['statement'],p['quantifier']['text'],', '.join(p['anchors']['files'])))
PY
sed "s#__DIR__#$d#g" /verif/tools/seed_prompt.txt > $d/_seed_out/PROMPT.txt
echo $d
