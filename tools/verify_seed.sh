#!/bin/bash
# usage: tools/verify_seed.sh <seed dir with patch.diff run_demo.sh> <check id>...
# confirms: patch applies, library builds, test suite passes, demo fails with / passes without; then runs the checks.
set -u
sd=$(readlink -f "$1"); shift
wt=$(mktemp -d /tmp/igris-seedv-XXXXXX); rmdir "$wt"
git -C /repo worktree add -q --detach "$wt" HEAD || exit 2
cleanup() { git -C /repo worktree remove --force "$wt" >/dev/null 2>&1; git -C /repo worktree prune; }
trap cleanup EXIT
echo "== demo on clean tree"; bash "$sd/run_demo.sh" "$wt" >/tmp/seedv_clean.log 2>&1; echo "clean demo exit=$?"
if ! git -C "$wt" apply "$sd/patch.diff"; then echo "PATCH-DOES-NOT-APPLY"; exit 2; fi
echo "== demo on changed tree"; bash "$sd/run_demo.sh" "$wt" >/tmp/seedv_mut.log 2>&1; echo "changed demo exit=$?"; tail -3 /tmp/seedv_mut.log
echo "== test suite on changed tree"
(cd "$wt" && cmake -G Ninja -S . -B _build >/dev/null 2>&1 && cmake --build _build >/tmp/seedv_build.log 2>&1 && ./_build/igris_test 2>&1 | tail -3)
rm -rf "$wt/_build"
for id in "$@"; do
  echo "== check $id on changed tree"
  IGRIS_ROOT="$wt" /verif/check "$id" 2>&1 | grep -E "^(VIOLATION|KNOWN-FINDING|HARNESS|BUILD-FAILED|violation in run|C[0-9]+ (quick|thorough))" | cut -c1-300
done
