#!/usr/bin/env python3
"""writes MANIFEST.json from checks_table.py (claimed checks) + the fixed not-applicable list"""
import json, os, sys
V = os.path.dirname(os.path.dirname(os.path.abspath(__file__)))
sys.path.insert(0, V)
from checks_table import CHECKS
NA = {
 "C06": "printf integer/char/string conversions are a pure function of (format, arguments): no schedule, clock, stream fault or history enters the statement, so deterministic simulation with fault injection has nothing to decide (DESIGN.md section 6)",
 "C07": "integer <-> text conversion is a pure function of (value, base) / (text, base); needs input-space enumeration, not simulation",
 "C08": "mem*/str* functions are pure functions of their buffers; alignment and overlap are inputs, not faults or schedules",
 "C11": "strto*/ato*/bsearch are pure; qsort only reads igris' own deterministic LCG rand(); input generation in simulator vocabulary would be a different technique",
 "C12": "float <-> text conversion is a pure function of its argument",
 "C13": "printf floating conversions are pure; termination and buffer safety are per-input statements with no fault or schedule dimension",
 "C17": "CRC routines are pure; feeding in pieces is function composition, not a faulty stream (the residue property is exercised indirectly by the C04/C05 link simulation)",
 "C18": "hexascii/base64 codecs are pure inverse pairs",
 "C19": "split/join/trim/replace/argv/path helpers and shell dispatch are pure functions of one string",
}
PLANNED = json.load(open(os.path.join(V, "tools", "planned.json"))) if os.path.exists(os.path.join(V, "tools", "planned.json")) else {}
checks = []
for cid in sorted(CHECKS):
    s = CHECKS[cid]
    checks.append({
        "property_id": cid,
        "quick_cmd": "./check %s --tier quick" % cid,
        "thorough_cmd": "./check %s --tier thorough" % cid,
        "evidence_file": "evidence/%s.json" % cid,
        "replay_cmd_template": "./check %s --replay {path}" % cid,
        "engine": s["engine"],
        "level_claimed": {"category": s["level"], "text": s["level_text"], "design_ref": s["design_ref"]},
        "level_note": s["level_note"],
        "technique": s["technique"],
    })
na = [{"property_id": k, "reason": v} for k, v in sorted(NA.items())]
for k, v in sorted(PLANNED.items()):
    if k not in CHECKS:
        na.append({"property_id": k, "reason": v})
engines = {}
for cid, s in CHECKS.items():
    engines.setdefault(s["engine"], []).append(cid)
ENG_TEXT = {
 "E1-thr": ("sim/thr", "serialising thread simulator: real pthreads parked on futex batons, pthread mutex/condvar/semaphore fully modelled by symbol interposition, seeded scheduler, vector-clock happens-before detector fed by -fsanitize=thread instrumentation of the igris TUs (own __tsan_* callbacks, no TSan runtime)"),
 "E2-clock": ("harness/C16_timers.cpp", "discrete-event clock world: main loop ticks with stalls, client ops, scripted re-entrant callbacks; reference scheduler oracle"),
 "E3-link": ("harness/C04_C05_link.cpp", "byte link with fault-injecting channel between the real gstuff encoders and receivers"),
 "E4-term": ("harness/C15_term.cpp", "keyboard -> real line editor/terminal automaton -> VT100 screen model"),
 "E5-store": ("harness/C09_store*.cpp", "cursor storages with truncation at every offset"),
 "E6-hist": ("harness/", "operation histories by cooperative client tasks (with client death) against reference models over a simulated allocator/memory"),
}
man = {
 "version": 1,
 "setup_cmd": "./check --setup",
 "hooks": {"guard": "IGRIS_VERIF", "enable": "no hook is needed: every seam is link-time, template or callback (DESIGN.md 3.2); checks compile igris sources from /repo's working tree unchanged",
           "baseline_off_cmd": "cmake -G Ninja -S /repo -B /repo/_build >/dev/null && cmake --build /repo/_build && ctest --test-dir /repo/_build -j8 --timeout 900",
           "source_commits": [], "add_only": True},
 "engines": [{"name": e, "path": ENG_TEXT.get(e, ("", ""))[0], "serves_properties": sorted(ps), "kind_free_text": ENG_TEXT.get(e, ("", ""))[1]} for e, ps in sorted(engines.items())],
 "checks": checks,
 "not_applicable": na,
 "notes": "All checks are deterministic simulations driven by VERIF_SEED (default 1); see DESIGN.md. Known findings: known_findings.txt.",
}
json.dump(man, open(os.path.join(V, "MANIFEST.json"), "w"), indent=1)
print("MANIFEST.json: %d checks, %d not applicable" % (len(checks), len(na)))
