#!/usr/bin/env python3
"""rewrites the table of section 18 of DESIGN.md (between the SEEDED-TABLE markers) from seeded/*/meta.json"""
import json, glob, re
rows=[]
miss=0
metas=[json.load(open(m)) for m in sorted(glob.glob('/verif/seeded/*/meta.json'))]
for m in metas:
    first_missed='MISSED' in m['confirmed_by']
    miss+=first_missed
    rows.append("| %s | %s | %s | %s |" % (m['id'], m['needs_to_manifest'].replace('|','/'), ("missed at first, caught after strengthening" if first_missed else "caught"), m['detected_as'].replace('|','/')))
p='/verif/DESIGN.md'
s=open(p).read()
head="| seeded | needs, in order to manifest | result | detected as |\n|----|----|----|----|\n"
block="<!-- SEEDED-TABLE-BEGIN -->\n%d changes kept so far: %d caught by the check as it stood, %d missed at first (each led to a strengthening noted in section 5 and is caught now).\n\n%s%s\n<!-- SEEDED-TABLE-END -->" % (len(metas), len(metas)-miss, miss, head, "\n".join(rows))
if '<!-- SEEDED-TABLE-BEGIN -->' in s:
    s=re.sub(r'<!-- SEEDED-TABLE-BEGIN -->.*?<!-- SEEDED-TABLE-END -->', lambda _: block, s, flags=re.S)
else:
    a=s.index("| seeded | needs, in order to manifest | result | detected as |")
    b=s.index("## 19.")
    s=s[:a]+block+"\n\n"+s[b:]
open(p,'w').write(s)
print(len(metas), miss)
