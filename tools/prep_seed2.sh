#!/bin/bash
# prep_seed2.sh <ID> <suffix>: like prep_seed.sh, plus a list of mechanisms already used by earlier seeded changes (to diversify)
id=$1; suf=$2; d=/tmp/seed-$id$suf
git -C /repo worktree add -q --detach $d HEAD && mkdir -p $d/_seed_out
python3 - "$id" "$d" <<'PY'
import json,sys,glob
pid=sys.argv[1]; d=sys.argv[2]
for l in open('/verif/properties.jsonl'):
    p=json.loads(l)
    if p['id']==pid:
        open(d+'/_seed_out/PROPERTY.txt','w').write("%s — %s\n\n%s\n\nQuantifier: %s\n\nAnchor files: %s\n"%(p['id'],p['title'],p['statement'],p['quantifier']['text'],', '.join(p['anchors']['files'])))
prev=[]
for m in sorted(glob.glob('/verif/seeded/%s-*/meta.json'%pid)):
    j=json.load(open(m)); prev.append("- "+j['needs_to_manifest'])
t=open('/verif/tools/seed_prompt.txt').read().replace('__DIR__',d)
t+="\n\nOther people have already produced changes for this property that hinge on the following triggers; do NOT reuse these mechanisms or the same functions - pick different functions, different operations and a different kind of trigger (look at less obvious members of the anchored files, at interactions between two features, at boundary sizes, at state left behind by an earlier operation):\n"+"\n".join(prev)+"\n"
open(d+'/_seed_out/PROMPT.txt','w').write(t)
PY
echo $d
