#!/usr/bin/env python3
"""keep_seed.py <seed out dir> <seeded id> <property> <caught:yes|no> "<needs>" "<ran>" "<detected by>" """
import sys, os, shutil, json
src, sid, prop, caught, needs, ran, det = sys.argv[1:8]
dst = os.path.join(os.path.dirname(os.path.dirname(os.path.abspath(__file__))), "seeded", sid)
os.makedirs(dst, exist_ok=True)
for f in os.listdir(src):
    if os.path.isfile(os.path.join(src, f)):
        shutil.copy(os.path.join(src, f), os.path.join(dst, f))
meta = {"id": sid, "property": prop, "breaks": open(os.path.join(src, "notes.md")).read()[:1500] if os.path.exists(os.path.join(src, "notes.md")) else "",
        "needs_to_manifest": needs, "confirmed_by": ran if caught == "yes" or "MISSED" in ran else "MISSED by the quick check as it stood; " + ran,
        # kept changes are all caught by now; "MISSED" in confirmed_by marks the ones that needed a strengthening first
        "caught_by_check": True, "detected_as": det,
        "origin": "independent sub-agent given only the property text and a scratch worktree"}
json.dump(meta, open(os.path.join(dst, "meta.json"), "w"), indent=1)
print("kept", dst)
