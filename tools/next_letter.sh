#!/bin/bash
# next_letter.sh <ID>: next free seeded letter for a property (A..Z, then a..z)
python3 - "$1" <<'PY'
import os,sys,string
p=sys.argv[1]; used={d.split('-',1)[1] for d in os.listdir('/verif/seeded') if d.startswith(p+'-')}
for c in string.ascii_uppercase+string.ascii_lowercase:
    if c not in used: print(c); break
PY
