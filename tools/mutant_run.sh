#!/bin/bash
# usage: tools/mutant_run.sh <patch file> <check id>... ; applies the patch to a scratch worktree of /repo,
# runs the quick checks against it (IGRIS_ROOT), removes the worktree. Never touches /repo's working tree.
set -u
patch=$(readlink -f "$1"); shift
wt=$(mktemp -d /tmp/igris-mut-XXXXXX)
rmdir "$wt"
git -C /repo worktree add -q --detach "$wt" HEAD >/dev/null 2>&1 || { echo "worktree failed"; exit 2; }
# carry over uncommitted changes of /repo (normally none)
if ! git -C "$wt" apply "$patch"; then echo "PATCH-DOES-NOT-APPLY $patch"; git -C /repo worktree remove --force "$wt"; exit 2; fi
rc=0
for id in "$@"; do
  IGRIS_ROOT="$wt" /verif/check "$id" ${MUT_ARGS:-} 2>&1 | grep -E "^(VIOLATION|KNOWN-FINDING|HARNESS|BUILD-FAILED|violation in run|  minimised|C[0-9]+ (quick|thorough))" 
done
git -C /repo worktree remove --force "$wt"
git -C /repo worktree prune
