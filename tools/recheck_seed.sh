#!/bin/bash
# usage: tools/recheck_seed.sh <seed dir with patch.diff> <check id>...   (only the checks; demo and suite were confirmed by verify_seed.sh)
set -u
sd=$(readlink -f "$1"); shift
wt=$(mktemp -d /tmp/igris-seedr-XXXXXX); rmdir "$wt"
git -C /repo worktree add -q --detach "$wt" HEAD || exit 2
cleanup() { git -C /repo worktree remove --force "$wt" >/dev/null 2>&1; git -C /repo worktree prune; }
trap cleanup EXIT
if ! git -C "$wt" apply "$sd/patch.diff"; then echo "PATCH-DOES-NOT-APPLY"; exit 2; fi
for id in "$@"; do
  IGRIS_ROOT="$wt" /verif/check "$id" 2>&1 | grep -E "^(VIOLATION|KNOWN-FINDING|HARNESS|BUILD-FAILED|violation in run|C[0-9]+ (quick|thorough))" | cut -c1-300
done
